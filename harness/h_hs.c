/* h_hs: handshake-MESSAGE level two-peer harness for C06 (legal handshake sequences), built on sess.h.
   One scenario per input line; commands separated by " ; ".

   The records each side emits are opened into a per-direction list of ITEMS (one handshake message, one
   ChangeCipherSpec, one alert, one application-data fragment); protected records are opened with the plaintext
   captured when the sender sealed them (link with --wrap=psAesEncryptGCM).  The script edits the item lists
   (delete / duplicate / swap / retype / insert / load a message saved from another scenario) and delivers items one
   at a time.  On delivery an item is packaged as ONE record in the form the receiver currently reads: plaintext while
   its read side is unprotected, otherwise sealed with the receiver's current read key / IV / sequence number through
   the library's own AES-GCM primitives (TLS 1.3: nonce = IV xor seq, AAD = record header; TLS 1.2: explicit nonce,
   AAD = seq|type|version|length).  The receiver therefore sees correctly protected records that carry an arbitrary
   message sequence: the model of a misbehaving peer that holds the session keys.

   new k=v ...        as h_sess (cv sv suite cauth ccb scb key resume ticket ems cca name year seed keepkeys) plus
                      psk=1 (TLS<=1.2 PSK keys on both sides), psk13=1 (external TLS 1.3 PSK on both sides; psk13=2: on the client only - offered, unknown to the server),
                      decline=1 (with resume=1, without keepkeys: the client still offers its saved session / ticket, the server has forgotten it),
                      cgrp=a,b sgrp=a,b nshare=n (key exchange groups: client offers key shares for the first n of cgrp)
   mq                 collect + print both item lists
   md <dir> [n]       deliver the next n items of a direction (default 1), one step line each
   mrun [max]         deliver everything, c2s first, until quiescent
   mdel <dir> <i> | mdup <dir> <i> | mswap <dir> <i> | msub <dir> <i> <type>
   mins <dir> <i> <type|ccs> [hexbody]      insert a handshake message (4-byte header generated) or a CCS
   mhex <dir> <i> | medit <dir> <i> <offset> <hexbyte>
   msave <dir> <i> <slot> | mload <dir> <i> <slot>     slots survive `new`
   mtamper <c|s> <type> <occ> omit|after|instead [slot]
                      CONSISTENT deviation by the sending side: its <occ>-th outgoing handshake message of <type> (counted
                      from `new`) is left out of / followed by the slot message in / replaced by the slot message in the
                      sender's own transcript hash AND on the wire, so everything the sender computes afterwards
                      (CertificateVerify, Finished, traffic secrets) is right for the deviating sequence: a self-consistent
                      misbehaving peer.  Must be given before the sender writes that flight; several may be pending.
   ocsp=1 (new)       client asks for OCSP stapling, server has the EC-256 test OCSP response loaded (use key=ec)
   dtls=1 (new)       DTLS sessions (cv/sv minor 3 = DTLS 1.2, 2 = DTLS 1.0) through sess.h's datagram output.  Items are whole handshake
                      messages with their 12-byte DTLS header (fragments are reassembled when collected).  On delivery a message is
                      numbered for the sequence actually delivered: message_seq = number of non-retransmitted handshake messages this
                      direction has delivered so far (so after a deletion / insertion / duplication the later messages carry the
                      message_seq a peer sending that sequence would use); a retransmitted copy keeps the number its original got.
                      Records get the receiver's expected epoch and a fresh record sequence number; protected ones are sealed with the
                      receiver's read key (AES-GCM: explicit nonce = epoch|seq, AAD = epoch|seq|type|version|length).
                      pmtu=N: matrixDtlsSetPmtu(N) (the sender fragments);  frag=N: the harness delivers every handshake message larger
                      than N bytes as fragments of N bytes, one record each;  resend=1: let the library retransmit flights (default:
                      a retransmission request is recorded and not followed - retransmission is C16's subject)
   mdup <dir> <i> [stale]   duplicate; with `stale` the copy is a retransmission (keeps the original's message_seq)
   st                 snapshots of both sides
   gate13 <role> <hs>                      256-bit map of verif_tls13CheckHsState over all message types
   gate12 <role> <hs>                      reaction of parseSSLHandshake's gate to each of the 256 types, for each of the 64 flag subsets
   gate12d <role> <hs>                     the same on a DTLS session (flags x haveCookie x lastMsn / message_seq pairs)
*/
#include "sess.h"
#include <setjmp.h>
#include "testkeys/OCSP/responses/OCSP_256_EC_GOOD.h"

/* ---------------------------------------------------------------- plaintext capture at seal time */
#define PTLOG 512
typedef struct { unsigned char *pt; uint32 len; } ptrec_t;
static ptrec_t g_ptlog[2][PTLOG]; static int g_pth[2], g_ptt[2];
static int g_resealing = 0;
void __real_psAesEncryptGCM(psAesGcm_t *ctx, const unsigned char *pt, unsigned char *ct, uint32_t len);
void __wrap_psAesEncryptGCM(psAesGcm_t *ctx, const unsigned char *pt, unsigned char *ct, uint32_t len)
{
    if (!g_resealing) {
        int w = -1;
        if (g_c.ssl && ctx == &g_c.ssl->sec.encryptCtx.aesgcm) w = 0;
        else if (g_s.ssl && ctx == &g_s.ssl->sec.encryptCtx.aesgcm) w = 1;
        if (w >= 0) {
            ptrec_t *r = &g_ptlog[w][g_ptt[w] % PTLOG]; free(r->pt);
            r->pt = malloc(len + 1); memcpy(r->pt, pt, len); r->len = len; g_ptt[w]++;
        }
    }
    __real_psAesEncryptGCM(ctx, pt, ct, len);
}

/* ---------------------------------------------------------------- DTLS: retransmissions are not followed unless asked for */
static int g_allow_resend = 0, g_resend_requests = 0;
int32_t __real_matrixDtlsGetOutdata(ssl_t *ssl, unsigned char **buf);
int32_t __wrap_matrixDtlsGetOutdata(ssl_t *ssl, unsigned char **buf)
{
    if (ssl && ssl->outlen == 0 && !g_allow_resend) { g_resend_requests++; return 0; }   /* would rebuild the last flight */
    return __real_matrixDtlsGetOutdata(ssl, buf);
}

/* ---------------------------------------------------------------- transcript-hash observation */
static ssl_t *g_cur_ssl; static const unsigned char *g_cur_msg; static size_t g_cur_len; static int g_hashed;
static jmp_buf g_probe_jmp;
static int g_gate_calls, g_gate_hs, g_probe_t = -1;   /* gate sweep: the probe message itself was hashed (= it passed the gate) */
typedef int32_t (*hashfn_t)(ssl_t *ssl, const unsigned char *in, psSize_t len);
static int tamper_hash(ssl_t *ssl, const unsigned char *in, psSize_t len, hashfn_t real, int32_t *rc);
int32_t __real_sslUpdateHSHash(ssl_t *ssl, const unsigned char *in, psSize_t len);
int32_t __wrap_sslUpdateHSHash(ssl_t *ssl, const unsigned char *in, psSize_t len)
{
    int32_t trc;
    if (g_probe_t < 0 && tamper_hash(ssl, in, len, __real_sslUpdateHSHash, &trc)) return trc;
    if (ssl == g_cur_ssl) {
        if (g_probe_t < 0) { g_gate_calls++; g_gate_hs = ssl->hsState; }
        else if ((len == 4 || len == 12) && in[0] == (unsigned char) g_probe_t && in[1] == 0 && in[2] == 0 && in[3] == 0) {
            /* gate sweep: the probe passed the gate and is about to be hashed; the handlers are not meant to run on the
               fabricated state, so the call is abandoned here (do_gate12 restores the session) */
            g_gate_calls++; g_gate_hs = ssl->hsState; longjmp(g_probe_jmp, 1);
        }
        if (g_cur_msg && len == g_cur_len && memcmp(in, g_cur_msg, len) == 0) g_hashed = 1;
    }
    return __real_sslUpdateHSHash(ssl, in, len);
}
int32_t __real_tls13TranscriptHashUpdate(ssl_t *ssl, const unsigned char *in, psSize_t len);
int32_t __wrap_tls13TranscriptHashUpdate(ssl_t *ssl, const unsigned char *in, psSize_t len)
{
    int32_t trc;
    if (tamper_hash(ssl, in, len, __real_tls13TranscriptHashUpdate, &trc)) return trc;
    if (ssl == g_cur_ssl && g_cur_msg && len == g_cur_len && memcmp(in, g_cur_msg, len) == 0) g_hashed = 1;
    return __real_tls13TranscriptHashUpdate(ssl, in, len);
}

/* ---------------------------------------------------------------- items */
#define MAXIT 256
#define K_RAW (-1)
typedef struct { int kind, t, g; unsigned char *b; size_t len; int was_sealed; unsigned char vmaj, vmin; int msn, retx; } item_t;   /* g: type the message was created with; DTLS: msn = message_seq the sender gave it (-1: made by the script), retx: retransmitted copy */
static item_t g_it[2][MAXIT]; static int g_nit[2];
static unsigned char *g_hsbuf[2]; static size_t g_hslen[2]; static int g_hssealed[2];
static unsigned char g_vmaj[2] = { 3, 3 }, g_vmin[2] = { 3, 3 };
#define NSLOT 32
static item_t g_slot[NSLOT];
#define HHL (g_sdtls ? 12 : 4)          /* handshake header length of the current scenario */
static int g_frag = 0;                  /* DTLS: deliver handshake messages in fragments of this many bytes */
static int g_next_msn[2], g_max_orig[2], g_msn_map[2][256];   /* delivery numbering / retransmission detection per direction */
static unsigned long g_dseq[2];         /* DTLS record sequence numbers the harness hands out per direction */
static struct { int msn, type; size_t len, got; unsigned char *buf; } g_fr[2];   /* fragment reassembly of the sender's output */
static size_t hs_body_len(const unsigned char *m) { return ((size_t) m[1] << 16) + ((size_t) m[2] << 8) + m[3]; }

/* ---------------------------------------------------------------- consistent deviations of the sender (mtamper) */
#define T_OMIT 0
#define T_AFTER 1
#define T_INSTEAD 2
typedef struct { int dir, type, occ, mode, slot; } tamper_t;
static tamper_t g_tamper[16]; static int g_ntamper;
static int g_hcount[2][256], g_ecount[2][256];     /* outgoing messages per type: seen by the hash / by the item extractor */
static const tamper_t *tamper_find(int d, int type, int occ) {
    for (int i = 0; i < g_ntamper; i++) if (g_tamper[i].dir == d && g_tamper[i].type == type && g_tamper[i].occ == occ) return &g_tamper[i];
    return NULL;
}
static int g_tshift[2];      /* DTLS: what the tampers so far add to the message_seq of the sender's later messages */
static void set_msn(unsigned char *m, int msn) { m[4] = (unsigned char) (msn >> 8); m[5] = (unsigned char) msn; }
static int get_msn(const unsigned char *m) { return (m[4] << 8) | m[5]; }
/* a message in the handshake-header format of the current scenario (slots may come from a TLS or a DTLS scenario) */
static unsigned char *fit_header(const unsigned char *b, size_t len, size_t *outlen) {
    size_t bl = hs_body_len(b); unsigned char *o;
    int src_dtls = (len == 12 + bl), dst_dtls = g_sdtls;
    if (src_dtls == dst_dtls || (len != 4 + bl && len != 12 + bl)) { o = malloc(len + 1); memcpy(o, b, len); *outlen = len; return o; }
    if (dst_dtls) { o = malloc(len + 9); memcpy(o, b, 4); memset(o + 4, 0, 5); memcpy(o + 9, b + 1, 3); memcpy(o + 12, b + 4, bl); *outlen = bl + 12; }
    else { o = malloc(len); memcpy(o, b, 4); memcpy(o + 4, b + 12, bl); *outlen = bl + 4; }
    return o;
}
/* called for every transcript-hash update; returns 1 if it took care of the update */
static int tamper_hash(ssl_t *ssl, const unsigned char *in, psSize_t len, hashfn_t real, int32_t *rc) {
    int d; size_t hh = (size_t) HHL;
    if (len < hh) return 0;
    if (g_c.ssl && ssl == g_c.ssl) d = 0; else if (g_s.ssl && ssl == g_s.ssl) d = 1; else return 0;
    /* a RECEIVED message (the one being delivered right now) is not ours */
    if (ssl == g_cur_ssl && g_cur_msg && len == g_cur_len && memcmp(in, g_cur_msg, len) == 0) return 0;
    /* only whole messages: header length must match */
    if (hh + hs_body_len(in) != (size_t) len) return 0;
    int occ = ++g_hcount[d][in[0]];
    const tamper_t *t = tamper_find(d, in[0], occ);
    if (!t && !(g_sdtls && g_tshift[d])) return 0;
    *rc = PS_SUCCESS;
    unsigned char *own = malloc(len + 1); memcpy(own, in, len);
    if (g_sdtls) set_msn(own, get_msn(in) + g_tshift[d]);        /* the number this message has in the sequence really sent */
    if (!t) { *rc = real(ssl, own, len); free(own); return 1; }
    if (t->mode == T_OMIT) { g_tshift[d]--; free(own); return 1; }
    if (t->mode == T_AFTER) *rc = real(ssl, own, len);
    if (g_slot[t->slot].b && g_slot[t->slot].kind == 22) {
        size_t sl; unsigned char *sm = fit_header(g_slot[t->slot].b, g_slot[t->slot].len, &sl);
        if (g_sdtls) set_msn(sm, get_msn(own) + (t->mode == T_AFTER ? 1 : 0));
        int32_t r2 = real(ssl, sm, (psSize_t) sl); if (*rc >= 0) *rc = r2; free(sm);
    }
    if (t->mode == T_AFTER) g_tshift[d]++;
    free(own);
    return 1;
}

static void item_free(item_t *it) { free(it->b); it->b = NULL; }
static void item_copy(item_t *d, const item_t *s) { *d = *s; d->b = malloc(s->len + 1); memcpy(d->b, s->b, s->len); }
static void items_reset(void) {
    for (int d = 0; d < 2; d++) { for (int i = 0; i < g_nit[d]; i++) item_free(&g_it[d][i]); g_nit[d] = 0; g_hslen[d] = 0; g_pth[d] = g_ptt[d] = 0; }
    g_ntamper = 0; memset(g_hcount, 0, sizeof g_hcount); memset(g_ecount, 0, sizeof g_ecount);
    memset(g_next_msn, 0, sizeof g_next_msn); g_max_orig[0] = g_max_orig[1] = -1; memset(g_msn_map, 0xff, sizeof g_msn_map);
    g_dseq[0] = g_dseq[1] = 0; g_fr[0].got = g_fr[1].got = 0; g_fr[0].len = g_fr[1].len = 0; g_tshift[0] = g_tshift[1] = 0;
}
static void item_add(int d, int kind, int t, const unsigned char *b, size_t len, int sealed) {
    if (g_nit[d] >= MAXIT) return;
    item_t *it = &g_it[d][g_nit[d]++]; it->kind = kind; it->t = t; it->g = t; it->b = malloc(len + 1); memcpy(it->b, b, len); it->len = len; it->msn = -1; it->retx = 0;
    it->was_sealed = sealed; it->vmaj = g_vmaj[d]; it->vmin = g_vmin[d];
}
static void item_insert(int d, int i, const item_t *src) {
    if (g_nit[d] >= MAXIT) return; if (i > g_nit[d]) i = g_nit[d]; if (i < 0) i = 0;
    memmove(&g_it[d][i + 1], &g_it[d][i], sizeof(item_t) * (size_t) (g_nit[d] - i)); g_nit[d]++;
    item_copy(&g_it[d][i], src); g_it[d][i].vmaj = g_vmaj[d]; g_it[d][i].vmin = g_vmin[d];
    g_it[d][i].msn = -1; g_it[d][i].retx = 0;
    if (src->kind == 22 && src->len >= 4) { size_t nl; unsigned char *nb = fit_header(src->b, src->len, &nl); free(g_it[d][i].b); g_it[d][i].b = nb; g_it[d][i].len = nl; }
}
static void item_remove(int d, int i) {
    if (i < 0 || i >= g_nit[d]) return; item_free(&g_it[d][i]);
    memmove(&g_it[d][i], &g_it[d][i + 1], sizeof(item_t) * (size_t) (g_nit[d] - i - 1)); g_nit[d]--;
}

/* one complete handshake message of the sender (header format of the scenario) becomes an item - unless an mtamper edits the wire */
static void emit_hs(int d, const unsigned char *m, size_t ml, int sealed) {
    int ty = m[0], occ = ++g_ecount[d][ty];
    const tamper_t *t = g_ntamper ? tamper_find(d, ty, occ) : NULL;
    if (!t || t->mode == T_AFTER) {
        item_add(d, 22, ty, m, ml, sealed);
        if (g_sdtls) {
            item_t *it = &g_it[d][g_nit[d]-1]; it->msn = get_msn(m);
            if (it->msn <= g_max_orig[d]) it->retx = 1; else g_max_orig[d] = it->msn;
        }
    } else if (g_sdtls && get_msn(m) > g_max_orig[d]) g_max_orig[d] = get_msn(m);
    if (t && t->mode != T_OMIT && g_slot[t->slot].b) {
        item_insert(d, g_nit[d], &g_slot[t->slot]); g_it[d][g_nit[d]-1].was_sealed = sealed;
    }
}
/* split complete handshake messages off the reassembly buffer (TLS: messages may span / share records) */
static void hs_extract(int d) {
    size_t off = 0;
    while (g_hslen[d] - off >= 4) {
        size_t ml = 4 + hs_body_len(g_hsbuf[d] + off);
        if (g_hslen[d] - off < ml) break;
        emit_hs(d, g_hsbuf[d] + off, ml, g_hssealed[d]);
        off += ml;
    }
    memmove(g_hsbuf[d], g_hsbuf[d] + off, g_hslen[d] - off); g_hslen[d] -= off;
}
/* DTLS: a handshake record holds whole messages or fragments (12-byte header each); fragments of one message arrive in order */
static void hs_extract_dtls(int d, const unsigned char *b, size_t bl, int sealed) {
    size_t off = 0;
    while (bl - off >= 12) {
        const unsigned char *m = b + off; size_t len = hs_body_len(m);
        size_t fo = ((size_t) m[6] << 16) + ((size_t) m[7] << 8) + m[8], fl = ((size_t) m[9] << 16) + ((size_t) m[10] << 8) + m[11];
        if (bl - off < 12 + fl) break;
        if (fo == 0 && fl == len) emit_hs(d, m, 12 + len, sealed);
        else {
            if (fo == 0 || g_fr[d].len != len || g_fr[d].msn != get_msn(m)) {
                free(g_fr[d].buf); g_fr[d].buf = malloc(len + 13); g_fr[d].len = len; g_fr[d].got = 0; g_fr[d].msn = get_msn(m); g_fr[d].type = m[0];
                memcpy(g_fr[d].buf, m, 12); memset(g_fr[d].buf + 6, 0, 3); memcpy(g_fr[d].buf + 9, m + 1, 3);
            }
            if (fo + fl <= len) { memcpy(g_fr[d].buf + 12 + fo, m + 12, fl); g_fr[d].got += fl; }
            if (g_fr[d].got >= len) { emit_hs(d, g_fr[d].buf, 12 + len, sealed); g_fr[d].got = 0; g_fr[d].len = 0; }
        }
        off += 12 + fl;
    }
}

/* open every record queued by sess.h's flush_out into items */
static void collect_dir(int d) {
    queue_t *q = d ? &g_s2c : &g_c2s; peer_t *from = d ? &g_s : &g_c;
    if (!g_hsbuf[d]) g_hsbuf[d] = malloc(QCAP);
    size_t l, rh = (size_t) SESS_RHL;
    while ((l = q_reclen(q)) != 0) {
        rmeta_t m = q_meta_pop(q); unsigned char *r = q->b; int outer = r[0];
        const unsigned char *body = r + rh; size_t bl = l - rh; int kind = outer; int have = 1;
        g_vmaj[d] = r[1]; g_vmin[d] = r[2];
        if (m.sealed == 1) {
            int is_gcm = from->ssl && from->ssl->cipher && (from->ssl->cipher->flags & CRYPTO_FLAGS_GCM);
            if (is_gcm && g_pth[d] != g_ptt[d]) {
                ptrec_t *p = &g_ptlog[d][g_pth[d]++ % PTLOG]; body = p->pt; bl = p->len;
                if (!g_sdtls && m.inner >= 0 && outer == 23 && ACTV_VER(from->ssl, v_tls_1_3_any)) {   /* TLSInnerPlaintext: strip padding + type */
                    while (bl > 0 && body[bl-1] == 0) bl--;
                    if (bl > 0) { kind = body[bl-1]; bl--; } else have = 0;
                }
            } else have = 0;
        }
        if (!have) item_add(d, K_RAW, outer, r, l, 1);
        else if (kind == 22 && g_sdtls) hs_extract_dtls(d, body, bl, m.sealed == 1);
        else if (kind == 22) {
            if (g_hslen[d] + bl <= QCAP) { memcpy(g_hsbuf[d] + g_hslen[d], body, bl); g_hslen[d] += bl; }
            g_hssealed[d] = m.sealed == 1; hs_extract(d);
        }
        else item_add(d, kind, kind == 21 && bl >= 2 ? body[1] : (bl ? body[0] : 0), body, bl, m.sealed == 1);
        q_pop(q, l);
    }
}
static void collect(void) {
    int sq = g_quiet; g_quiet = 1; flush_out(&g_c); flush_out(&g_s); g_quiet = sq;
    collect_dir(0); collect_dir(1);
}

/* ---------------------------------------------------------------- sealing for the receiver */
static void seq_incr_copy(unsigned char *s) { (void) s; }
static size_t seal13(ssl_t *to, int inner, const unsigned char *b, size_t len, unsigned char *out) {
    psAesGcm_t ctx; unsigned char nonce[12], aad[5]; size_t ptl = len + 1, i;
    unsigned char *pt = malloc(ptl); memcpy(pt, b, len); pt[len] = (unsigned char) inner;
    memset(&ctx, 0, sizeof ctx);
    if (psAesInitGCM(&ctx, to->sec.readKey, to->cipher->keySize) < 0) { free(pt); return 0; }
    memset(nonce, 0, 12); memcpy(nonce + 4, to->sec.remSeq, 8); for (i = 0; i < 12; i++) nonce[i] ^= to->sec.tls13ReadIv[i];
    aad[0] = 23; aad[1] = 3; aad[2] = 3; aad[3] = (unsigned char) ((ptl + 16) >> 8); aad[4] = (unsigned char) (ptl + 16);
    memcpy(out, aad, 5);
    g_resealing = 1;
    psAesReadyGCM(&ctx, nonce, aad, 5); psAesEncryptGCM(&ctx, pt, out + 5, (uint32) ptl); psAesGetGCMTag(&ctx, 16, out + 5 + ptl);
    g_resealing = 0; psAesClearGCM(&ctx); free(pt);
    return 5 + ptl + 16;
}
static size_t seal12(ssl_t *to, int type, unsigned char vmaj, unsigned char vmin, const unsigned char *b, size_t len, unsigned char *out) {
    psAesGcm_t ctx; unsigned char nonce[12], aad[13];
    memset(&ctx, 0, sizeof ctx);
    if (psAesInitGCM(&ctx, to->sec.readKey, to->cipher->keySize) < 0) return 0;
    memcpy(nonce, to->sec.readIV, 4); memcpy(nonce + 4, to->sec.remSeq, 8);
    memcpy(aad, to->sec.remSeq, 8); aad[8] = (unsigned char) type; aad[9] = vmaj; aad[10] = vmin; aad[11] = (unsigned char) (len >> 8); aad[12] = (unsigned char) len;
    size_t rl = 8 + len + 16;
    out[0] = (unsigned char) type; out[1] = vmaj; out[2] = vmin; out[3] = (unsigned char) (rl >> 8); out[4] = (unsigned char) rl;
    memcpy(out + 5, to->sec.remSeq, 8);
    g_resealing = 1;
    psAesReadyGCM(&ctx, nonce, aad, 13); psAesEncryptGCM(&ctx, b, out + 13, (uint32) len); psAesGetGCMTag(&ctx, 16, out + 13 + len);
    g_resealing = 0; psAesClearGCM(&ctx);
    return 5 + rl;
}

#ifdef USE_DTLS
/* DTLS record for the receiver: its expected epoch, a fresh sequence number; sealed (AES-GCM) when `seal` */
static size_t dtls_record(ssl_t *to, int d, int type, unsigned char vmaj, unsigned char vmin, const unsigned char *b, size_t len, unsigned char *out, int seal) {
    unsigned char es[8]; unsigned long sq = g_dseq[d]++;
    es[0] = to->expectedEpoch[0]; es[1] = to->expectedEpoch[1]; es[2] = 0; es[3] = 0;
    es[4] = (unsigned char) (sq >> 24); es[5] = (unsigned char) (sq >> 16); es[6] = (unsigned char) (sq >> 8); es[7] = (unsigned char) sq;
    out[0] = (unsigned char) type; out[1] = vmaj; out[2] = vmin; memcpy(out + 3, es, 8);
    if (!seal) { out[11] = (unsigned char) (len >> 8); out[12] = (unsigned char) len; memcpy(out + 13, b, len); return 13 + len; }
    psAesGcm_t ctx; unsigned char nonce[12], aad[13]; size_t rl = 8 + len + 16;
    memset(&ctx, 0, sizeof ctx);
    if (psAesInitGCM(&ctx, to->sec.readKey, to->cipher->keySize) < 0) return 0;
    memcpy(nonce, to->sec.readIV, 4); memcpy(nonce + 4, es, 8);
    memcpy(aad, es, 8); aad[8] = (unsigned char) type; aad[9] = psEncodeVersionMaj(GET_NGTD_VER(to)); aad[10] = psEncodeVersionMin(GET_NGTD_VER(to));
    aad[11] = (unsigned char) (len >> 8); aad[12] = (unsigned char) len;
    out[11] = (unsigned char) (rl >> 8); out[12] = (unsigned char) rl; memcpy(out + 13, es, 8);
    g_resealing = 1;
    psAesReadyGCM(&ctx, nonce, aad, 13); psAesEncryptGCM(&ctx, b, out + 21, (uint32) len); psAesGetGCMTag(&ctx, 16, out + 21 + len);
    g_resealing = 0; psAesClearGCM(&ctx);
    return 13 + rl;
}
#endif

/* ---------------------------------------------------------------- snapshots */
static void print_xsnap(peer_t *p) {
    ssl_t *s = p->ssl;
    print_snap(p);
    if (!s) return;
    printf(",x=%d%d%d%d,tk=%d,sr=%d,y=%d%d%d%d,dc=%d,cs=%04x", (s->flags & SSL_FLAGS_RESUMED) ? 1 : 0, (s->flags & SSL_FLAGS_CLIENT_AUTH) ? 1 : 0,
           (s->flags & SSL_FLAGS_PSK_CIPHER) ? 1 : 0, (s->flags & SSL_FLAGS_DHE_KEY_EXCH) ? 1 : 0,
           s->sid ? (int) s->sid->sessionTicketState : -1, (s->extFlags.status_request || s->extFlags.status_request_v2) ? 1 : 0,
           s->sec.tls13UsingPsk ? 1 : 0, s->tls13IncorrectDheKeyShare ? 1 : 0, (s->keys && s->keys->sessTickets) ? 1 : 0,
           s->tls13GotCertificateRequest ? 1 : 0, (int) s->decState, s->cipher ? (unsigned) s->cipher->ident : 0);
#ifdef USE_DTLS
    if (s->flags & SSL_FLAGS_DTLS) printf(",lm=%d,hc=%d,rq=%d", (int) s->lastMsn, s->haveCookie ? 1 : 0, g_resend_requests);
#endif
}

/* ---------------------------------------------------------------- delivery of one item */
/* what the BYTES of a hello say: bit0 = selects / offers TLS 1.3 (supported_versions holds 0x0304), bit1 = HelloRetryRequest random */
static int hello_bits(const item_t *it) {
    static const unsigned char hrr[32] = { 0xCF,0x21,0xAD,0x74,0xE5,0x9A,0x61,0x11,0xBE,0x1D,0x8C,0x02,0x1E,0x65,0xB8,0x91,0xC2,0xA2,0x11,0x16,0x7A,0xBB,0x8C,0x5E,0x07,0x9E,0x09,0xE2,0xC8,0xA8,0x33,0x9C };
    const unsigned char *b = it->b; size_t n = it->len, o, hh = (size_t) HHL; int bits = 0;
    if (it->kind != 22 || n < hh + 2 + 32 + 1) return 0;
    if (it->t == 2 && memcmp(b + hh + 2, hrr, 32) == 0) bits |= 2;
    o = hh + 2 + 32; if (o >= n) return bits; if (it->t == 1 && b[o] > 0) bits |= 16; o += 1 + b[o];   /* session id (bit 4: ClientHello offers one) */
    if (it->t == 1 && g_sdtls) { if (o >= n) return bits; if (b[o] > 0) bits |= 4; o += 1 + b[o]; }   /* DTLS ClientHello: cookie (bit 2: not empty) */
    if (it->t == 1) { if (o + 2 > n) return bits; o += 2 + ((size_t) b[o] << 8) + b[o+1]; if (o + 1 > n) return bits; o += 1 + b[o]; }   /* suites, compression */
    else if (it->t == 2) o += 3; else return bits;
    if (o + 2 > n) return bits; size_t el = ((size_t) b[o] << 8) + b[o+1]; o += 2; size_t e = o + el; if (e > n) e = n;
    while (o + 4 <= e) { unsigned ty = ((unsigned) b[o] << 8) + b[o+1]; size_t l = ((size_t) b[o+2] << 8) + b[o+3]; o += 4; if (o + l > e) break;
        if (ty == 0x002b) {
            if (it->t == 1) { for (size_t k = 1; k + 1 < l; k += 2) if (b[o+k] == 3 && b[o+k+1] == 4) bits |= 1; }
            else if (l >= 2 && b[o] == 3 && b[o+1] == 4) bits |= 1;
        }
        if (it->t == 1 && ty == 0x0029) bits |= 8;               /* bit 3: ClientHello carries pre_shared_key (a TLS 1.3 resumption / PSK offer) */
        if (it->t == 1 && ty == 0x0023 && l > 0) bits |= 16;     /* bit 4: ... or a non-empty SessionTicket (a <= 1.2 resumption offer) */
        o += l; }
    return bits;
}
static char kindch(const item_t *it) { return it->kind == 22 ? 'H' : it->kind == 20 ? 'C' : it->kind == 21 ? 'A' : it->kind == 23 ? 'D' : 'R'; }
static void deliver_item(int d, const item_t *it0) {
    peer_t *to = d ? &g_c : &g_s; ssl_t *s = to->ssl;
    if (!s) { printf("step:%c nil ", d ? 'c' : 's'); return; }
    item_t itc; item_copy(&itc, it0); const item_t *it = &itc;
    unsigned char *rec = malloc(it->len + 96); size_t rl = 0; char form = 'p';
    int is13 = ACTV_VER(s, v_tls_1_3_any) ? 1 : 0, rsec = (s->flags & SSL_FLAGS_READ_SECURE) ? 1 : 0;
    int gcm = s->cipher && (s->cipher->flags & CRYPTO_FLAGS_GCM);
    int dt = 0, msn_out = -1;
#ifdef USE_DTLS
    dt = (s->flags & SSL_FLAGS_DTLS) ? 1 : 0;
    if (dt && it->kind == 22 && it->len >= 12) {
        /* message_seq of the sequence actually delivered; a retransmitted copy keeps the number of its original */
        if (it->retx && it->msn >= 0 && it->msn < 256 && g_msn_map[d][it->msn] >= 0) msn_out = g_msn_map[d][it->msn];
        else { msn_out = g_next_msn[d]++; if (it->msn >= 0 && it->msn < 256) g_msn_map[d][it->msn] = msn_out; }
        set_msn(itc.b, msn_out);
    }
#endif
    printf("step:%c m=%c:%d:%d:%d f=", d ? 'c' : 's', kindch(it), it->t, it->g, hello_bits(it));
    g_cur_ssl = s; g_cur_msg = it->kind == 22 ? it->b : NULL; g_cur_len = it->len; g_hashed = 0;
    if (it->kind == K_RAW) form = 'r';
    else if (dt) form = (rsec && gcm) ? 's' : (rsec ? 'x' : 'p');
    else if (rsec && gcm && is13 && it->kind != 20) form = 's';
    else if (rsec && gcm && !is13) form = 's';
    else form = rsec && !(is13 && it->kind == 20) ? 'x' : 'p';
    printf("%c l=%zu", form, it->len);
    if (dt) printf(" q=%d:%d", msn_out, it->retx);
    printf(" pre="); print_xsnap(to); printf(" ");
    if (it->kind == K_RAW) { memcpy(rec, it->b, it->len); rl = it->len; feed(to, rec, rl, 0); }
#ifdef USE_DTLS
    else if (dt && it->kind == 22 && g_frag > 0 && it->len > 12 + (size_t) g_frag) {
        /* the message in fragments of g_frag bytes, one record (= one datagram) each */
        size_t bl = it->len - 12, off = 0; unsigned char *fm = malloc(12 + (size_t) g_frag);
        while (off < bl && !(s->flags & (SSL_FLAGS_ERROR | SSL_FLAGS_CLOSED))) {
            size_t fl = bl - off > (size_t) g_frag ? (size_t) g_frag : bl - off;
            memcpy(fm, it->b, 12); fm[6] = (unsigned char) (off >> 16); fm[7] = (unsigned char) (off >> 8); fm[8] = (unsigned char) off;
            fm[9] = (unsigned char) (fl >> 16); fm[10] = (unsigned char) (fl >> 8); fm[11] = (unsigned char) fl; memcpy(fm + 12, it->b + 12 + off, fl);
            rl = dtls_record(s, d, 22, it->vmaj, it->vmin, fm, 12 + fl, rec, rsec && gcm);
            feed(to, rec, rl, 0); off += fl;
        }
        free(fm); g_cur_msg = NULL;
    }
    else if (dt) { rl = dtls_record(s, d, it->kind, it->vmaj, it->vmin, it->b, it->len, rec, rsec && gcm); feed(to, rec, rl, 0); }
#endif
    else {
        if (form == 's' && is13) rl = seal13(s, it->kind, it->b, it->len, rec);
        else if (form == 's') rl = seal12(s, it->kind, it->vmaj, it->vmin, it->b, it->len, rec);
        else {
            rec[0] = (unsigned char) it->kind; rec[1] = it->vmaj; rec[2] = it->vmin; rec[3] = (unsigned char) (it->len >> 8); rec[4] = (unsigned char) it->len;
            memcpy(rec + 5, it->b, it->len); rl = 5 + it->len;
        }
        feed(to, rec, rl, 0);
    }
    g_cur_ssl = NULL; g_cur_msg = NULL;
    printf("post="); print_xsnap(to); printf(" h=%d ", g_hashed);
    free(rec); item_free(&itc);
}
static int md(int d, int n) {
    int k = 0;
    for (int i = 0; i < n; i++) {
        collect();
        if (g_nit[d] == 0) { if (i == 0) printf("step:none "); break; }
        item_t it; item_copy(&it, &g_it[d][0]); item_remove(d, 0);
        deliver_item(d, &it); item_free(&it); k++;
    }
    collect();
    return k;
}

/* ---------------------------------------------------------------- scenario creation (sess_new + PSK / groups) */
typedef struct { int psk, psk13, ncg, nsg, nshare, ocsp, pmtu, frag, resend, decline; uint16_t cg[4], sg[4]; } xcfg_t;
static int hs_new(scfg_t *c, xcfg_t *x) {
    int32 rc;
    peer_free(&g_c); peer_free(&g_s);
    memset(&g_c, 0, sizeof g_c); memset(&g_s, 0, sizeof g_s); g_s.is_server = 1;
    memset(g_ilog, 0, sizeof g_ilog); items_reset();
    if (!c->keep_skeys) {
        if (g_skeys_persist) { matrixSslDeleteKeys(g_skeys_persist); g_skeys_persist = NULL; }
        if (g_saved_sid && !x->decline) { matrixSslDeleteSessionId(g_saved_sid); g_saved_sid = NULL; }   /* decline=1: the client keeps what it has, the server (library reopened: session cache empty; other ticket keys) no longer knows it */
        if (c->dtls) ent_seed(c->seed ^ 0x44544c53);      /* matrixSslOpen draws the DTLS cookie secret */
        matrixSslClose(); if (matrixSslOpen() < 0) return -9;
        g_vtime = 1592222400;
    }
    g_sdtls = c->dtls ? 1 : 0; g_frag = x->frag; g_allow_resend = x->resend; g_resend_requests = 0;
#ifdef USE_DTLS
    matrixDtlsSetPmtu(x->pmtu > 0 ? x->pmtu : -1);
#endif
    q_init(&g_c2s); q_init(&g_s2c);
    ent_seed(c->seed);
    g_pin_year = c->year ? c->year : 2020;
    static const unsigned char pskkey[16] = "verif-psk-key-01", pskid[8] = "verifpsk";
    static const unsigned char psk13key[32] = "verif-tls13-external-psk-key-001", psk13id[10] = "verifpsk13";
    if (c->keep_skeys && g_skeys_persist) g_s.keys = g_skeys_persist;
    else {
        if (g_skeys_persist) { matrixSslDeleteKeys(g_skeys_persist); g_skeys_persist = NULL; }
        if (matrixSslNewKeys(&g_s.keys, NULL) < 0) return -1;
        if ((rc = load_identity(g_s.keys, c->key, 1, c->cauth ? 1 : 0)) < 0) return rc - 1000;
        if (c->ticket) {
            static const unsigned char tn[16] = "verif-ticketkey"; static unsigned char sk[32], hk[32];
            memset(sk, x->decline ? 0x5b : 0x5a, 32); memset(hk, 0xa5, 32);
            matrixSslLoadSessionTicketKeys(g_s.keys, x->decline ? (const unsigned char *) "verif-ticketkez" : tn, sk, 32, hk, 32);
        }
        if (x->psk && (rc = matrixSslLoadPsk(g_s.keys, pskkey, 16, pskid, 8)) < 0) return rc - 1100;
        if (x->psk13 == 1 && (rc = matrixSslLoadTls13Psk(g_s.keys, psk13key, 32, psk13id, 10, NULL)) < 0) return rc - 1200;
        if (x->ocsp && (rc = matrixSslLoadOCSPResponse(g_s.keys, ocsp_256_ec_good, sizeof(ocsp_256_ec_good))) < 0) return rc - 1300;
        g_skeys_persist = g_s.keys;
    }
    if (matrixSslNewKeys(&g_c.keys, NULL) < 0) return -2;
    if ((rc = load_identity(g_c.keys, c->key, c->cauth ? 1 : 0, c->cca)) < 0) return rc - 2000;
    if (x->psk && (rc = matrixSslLoadPsk(g_c.keys, pskkey, 16, pskid, 8)) < 0) return rc - 2100;
    if (x->psk13 && (rc = matrixSslLoadTls13Psk(g_c.keys, psk13key, 32, psk13id, 10, NULL)) < 0) return rc - 2200;
    sslSessOpts_t so; memset(&so, 0, sizeof so);
    psProtocolVersion_t v[4];
    for (int i = 0; i < c->nsver; i++) v[i] = minor2ver(c->sver[i]);
    if (c->dtls) so.versionFlag = dtls_version_flag(c->sver, c->nsver);
    else if (c->nsver && (rc = matrixSslSessOptsSetServerTlsVersions(&so, v, c->nsver)) < 0) return rc - 3000;
    if (x->nsg && (rc = matrixSslSessOptsSetKeyExGroups(&so, x->sg, (psSize_t) x->nsg, 1)) < 0) return rc - 3100;
    if (c->ems < 0) so.extendedMasterSecret = -1;
    g_s.cb_mode = c->scb;
    rc = matrixSslNewServerSession(&g_s.ssl, g_s.keys, c->cauth ? cb_server : NULL, &so);
    if (rc < 0) return rc - 4000;
    if (c->cauth && c->scb == 0) g_s.ssl->sec.validateCert = NULL;
    memset(&so, 0, sizeof so);
    for (int i = 0; i < c->ncver; i++) v[i] = minor2ver(c->cver[i]);
    if (c->dtls) so.versionFlag = dtls_version_flag(c->cver, c->ncver);
    else if (c->ncver && (rc = matrixSslSessOptsSetClientTlsVersions(&so, v, c->ncver)) < 0) return rc - 5000;
    if (x->ncg && (rc = matrixSslSessOptsSetKeyExGroups(&so, x->cg, (psSize_t) x->ncg, (psSize_t) (x->nshare ? x->nshare : 1))) < 0) return rc - 5100;
    if (c->ems < 0) so.extendedMasterSecret = -1;
    if (c->ticket) so.ticketResumption = 1;
    if (x->ocsp) so.OCSPstapling = 1;
    g_c.cb_mode = c->ccb;
    if (c->resume && g_saved_sid) g_c.sid = g_saved_sid;
    else { if (g_saved_sid) { matrixSslDeleteSessionId(g_saved_sid); g_saved_sid = NULL; } matrixSslNewSessionId(&g_saved_sid, NULL); g_c.sid = g_saved_sid; }
    rc = matrixSslNewClientSession(&g_c.ssl, g_c.keys, g_c.sid, c->nsuites ? c->suites : NULL, (uint8_t) c->nsuites,
                                   c->ccb ? cb_client : NULL, c->name, NULL, NULL, &so);
    if (rc != MATRIXSSL_REQUEST_SEND) return rc - 6000;
    g_ssl_of[0] = g_c.ssl; g_ssl_of[1] = g_s.ssl;
    return 0;
}

static int parse_list(const char *s, int *out, int max) { int n = 0; while (*s && n < max) { out[n++] = atoi(s); while (*s && *s != ',') s++; if (*s) s++; } return n; }
static void do_new(char **a, int n) {
    scfg_t c; xcfg_t x; memset(&c, 0, sizeof c); memset(&x, 0, sizeof x); c.cca = 1; c.seed = 1;
    for (int i = 0; i < n; i++) {
        char *eq = strchr(a[i], '='); if (!eq) continue; *eq = 0; char *v = eq + 1;
        if (!strcmp(a[i], "cv")) c.ncver = parse_list(v, c.cver, 4);
        else if (!strcmp(a[i], "sv")) c.nsver = parse_list(v, c.sver, 4);
        else if (!strcmp(a[i], "suite")) { while (*v && c.nsuites < 8) { c.suites[c.nsuites++] = (psCipher16_t) strtol(v, &v, 16); if (*v == ',') v++; } }
        else if (!strcmp(a[i], "cauth")) c.cauth = atoi(v);
        else if (!strcmp(a[i], "ccb")) c.ccb = atoi(v);
        else if (!strcmp(a[i], "scb")) c.scb = atoi(v);
        else if (!strcmp(a[i], "key")) c.key = !strcmp(v, "ec");
        else if (!strcmp(a[i], "resume")) c.resume = atoi(v);
        else if (!strcmp(a[i], "ticket")) c.ticket = atoi(v);
        else if (!strcmp(a[i], "ems")) c.ems = atoi(v);
        else if (!strcmp(a[i], "cca")) c.cca = atoi(v);
        else if (!strcmp(a[i], "name")) c.name = v;
        else if (!strcmp(a[i], "year")) c.year = atoi(v);
        else if (!strcmp(a[i], "seed")) c.seed = strtoull(v, NULL, 10);
        else if (!strcmp(a[i], "keepkeys")) c.keep_skeys = atoi(v);
        else if (!strcmp(a[i], "psk")) x.psk = atoi(v);
        else if (!strcmp(a[i], "psk13")) x.psk13 = atoi(v);
        else if (!strcmp(a[i], "decline")) x.decline = atoi(v);
        else if (!strcmp(a[i], "ocsp")) x.ocsp = atoi(v);
        else if (!strcmp(a[i], "dtls")) c.dtls = atoi(v);
        else if (!strcmp(a[i], "pmtu")) x.pmtu = atoi(v);
        else if (!strcmp(a[i], "frag")) x.frag = atoi(v);
        else if (!strcmp(a[i], "resend")) x.resend = atoi(v);
        else if (!strcmp(a[i], "nshare")) x.nshare = atoi(v);
        else if (!strcmp(a[i], "cgrp")) { int t[4]; x.ncg = parse_list(v, t, 4); for (int k = 0; k < x.ncg; k++) x.cg[k] = (uint16_t) t[k]; }
        else if (!strcmp(a[i], "sgrp")) { int t[4]; x.nsg = parse_list(v, t, 4); for (int k = 0; k < x.nsg; k++) x.sg[k] = (uint16_t) t[k]; }
    }
    int rc = hs_new(&c, &x);
    printf("new:%d", rc);
}

static int dirof(const char *s) { return s[0] == 's' ? 1 : 0; }
static void print_items(int d) {
    printf("%s=[", d ? "s2c" : "c2s");
    for (int i = 0; i < g_nit[d]; i++) printf("%s%c%d%s", i ? "," : "", kindch(&g_it[d][i]), g_it[d][i].t, g_it[d][i].was_sealed ? "s" : "");
    printf("]");
}

/* ---------------------------------------------------------------- gate sweeps */
extern int32_t verif_tls13CheckHsState(ssl_t *ssl, unsigned char msg) __attribute__((weak));

static void do_gate13(int role, int hs) {
    static ssl_t fake;          /* the function reads hsState and the role flag, and writes err on refusal */
    if (!verif_tls13CheckHsState) { printf("g13:nohook"); return; }
    unsigned char bits[32]; memset(bits, 0, 32);
    for (int m = 0; m < 256; m++) {
        memset(&fake, 0, sizeof fake); fake.flags = role ? SSL_FLAGS_SERVER : 0; fake.hsState = (uint8_t) hs; fake.err = SSL_ALERT_NONE;
        int32_t rc = verif_tls13CheckHsState(&fake, (unsigned char) m);
        int ok = rc == PS_SUCCESS;
        if (!ok && fake.err != SSL_ALERT_UNEXPECTED_MESSAGE) { printf("g13:odd:%d:%d:%d ", m, (int) rc, (int) fake.err); }
        if (ok && fake.err != SSL_ALERT_NONE) { printf("g13:odderr:%d ", m); }
        if (fake.hsState != hs) printf("g13:moved:%d ", m);
        if (ok) bits[m >> 3] |= (unsigned char) (1 << (m & 7));
    }
    printf("g13:"); puthex(bits, 32);
}

/* flagbits: 1 READ_SECURE+WRITE_SECURE, 2 PSK_CIPHER, 4 DHE_KEY_EXCH, 8.. ticket state: 0 no sid, 1 INIT, 2 RECVD_EXT, 3 SENT_TICKET(other), 32 CLIENT_AUTH */
static int g_g12_only = -1;   /* debugging: probe a single type */
static void do_gate12(int role, int hs) {
    scfg_t c; xcfg_t x; memset(&c, 0, sizeof c); memset(&x, 0, sizeof x); c.cca = 1; c.seed = 7; c.ncver = c.nsver = 1; c.cver[0] = c.sver[0] = 3;
    if (hs_new(&c, &x) != 0) { printf("g12:newfail"); return; }
    peer_t *p = role ? &g_s : &g_c; ssl_t *s = p->ssl;
    { int sq = g_quiet; g_quiet = 1; flush_out(&g_c); g_quiet = sq; }   /* the client's ClientHello leaves its outbuf */
    sslSessionId_t *sid_saved = s->sid; static sslSessionId_t fakesid;
    for (int fb = 0; fb < 64; fb++) {
    int counts[4] = { 0, 0, 0, 0 };
    printf("g12:");
    for (int t = 0; t < 256; t++) {
        if (g_g12_only >= 0 && t != g_g12_only) continue;
        /* fabricate the state; everything the probe can touch is put back afterwards */
        ssl_t keep; memcpy(&keep, s, sizeof keep);
        s->hsState = (uint8_t) hs;
        s->flags &= ~(SSL_FLAGS_READ_SECURE | SSL_FLAGS_WRITE_SECURE | SSL_FLAGS_PSK_CIPHER | SSL_FLAGS_DHE_KEY_EXCH | SSL_FLAGS_ERROR | SSL_FLAGS_CLOSED | SSL_FLAGS_CLIENT_AUTH);
        if (fb & 32) s->flags |= SSL_FLAGS_CLIENT_AUTH;
        if (fb & 1) s->flags |= SSL_FLAGS_READ_SECURE | SSL_FLAGS_WRITE_SECURE;
        if (fb & 2) s->flags |= SSL_FLAGS_PSK_CIPHER;
        if (fb & 4) s->flags |= SSL_FLAGS_DHE_KEY_EXCH;
        int tk = (fb >> 3) & 3;
        if (tk == 0) s->sid = NULL; else { memset(&fakesid, 0, sizeof fakesid); s->sid = &fakesid; fakesid.sessionTicketState = tk == 1 ? SESS_TICKET_STATE_INIT : tk == 2 ? SESS_TICKET_STATE_RECVD_EXT : SESS_TICKET_STATE_SENT_TICKET; }
        s->err = SSL_ALERT_NONE;
        unsigned char rec[9] = { 22, 3, 3, 0, 4, (unsigned char) t, 0, 0, 0 };
        unsigned char *rb; int32 room = matrixSslGetReadbuf(s, &rb);
        int32 rc = -999; unsigned char *pt; uint32 ptl;
        g_cur_ssl = s; g_gate_calls = 0; g_gate_hs = -1; g_probe_t = t;
        if (room >= 9 && setjmp(g_probe_jmp) == 0) { memcpy(rb, rec, 9); rc = matrixSslReceivedData(s, 9, &pt, &ptl); }
        g_cur_ssl = NULL; g_probe_t = -1;
        int err = (int) s->err, hsa = (int) s->hsState;
        /* classification: refused by the gate (nothing hashed, state unchanged) with unexpected_message / with the
           no_renegotiation warning (err is cleared again by the alert writer: look at the alert record) / dropped / passed */
        int warn100 = s->outlen >= 7 && s->outbuf[0] == 21 && s->outbuf[5] == 1 && s->outbuf[6] == 100;
        /* (in the unreachable state SSL_HS_HELLO_REQUEST the response encoder writes a ClientHello instead of the alert and moves
           hsState; the gate's verdict - probe not hashed, err = unexpected_message - is what is compared) */
        if (g_gate_calls == 0 && err == SSL_ALERT_UNEXPECTED_MESSAGE && (hsa == hs || hs == SSL_HS_HELLO_REQUEST)) counts[0]++;
        else if (g_gate_calls == 0 && warn100 && err == SSL_ALERT_NONE && hsa == hs && !(s->flags & SSL_FLAGS_ERROR)) { counts[1]++; printf("%d:n ", t); }
        else if (g_gate_calls > 0) { counts[2]++; printf("%d:p%d ", t, g_gate_hs); }
        else if (err == SSL_ALERT_NONE && hsa == hs && s->outlen == 0 && !(s->flags & SSL_FLAGS_ERROR)) { counts[3]++; printf("%d:i ", t); }
        else { counts[3]++; printf("%d:o%d:%d:%d ", t, err, hsa, (int) rc); }
        /* restore */
        void *ib = s->inbuf, *ob = s->outbuf; int32 isz = s->insize, osz = s->outsize;
        memcpy(s, &keep, sizeof keep);
        s->inbuf = ib; s->outbuf = ob; s->insize = isz; s->outsize = osz; s->inlen = 0; s->outlen = 0;
    }
    printf("u=%d n=%d p=%d o=%d ; ", counts[0], counts[1], counts[2], counts[3]);
    }
    s->sid = sid_saved;
}

#ifdef USE_DTLS
/* the same gate on a DTLS session: hsState x type x 16 flag subsets (1 PSK, 2 DHE, 4 ticket state RECVD_EXT else INIT, 8 CLIENT_AUTH)
   x haveCookie x (lastMsn, message_seq) pairs.  Codes per type: refused with unexpected_message (counted), n no_renegotiation
   warning, p<hs> passed (hashed in state hs), f dropped silently (future message_seq), x dropped with DTLS_RETRANSMIT, o other;
   runs of equal codes are printed as a-b:code */
static void do_gate12d(int role, int hs) {
    static const int pairs[10][2] = { {-1,0}, {-1,1}, {0,0}, {0,1}, {0,2}, {2,0}, {2,1}, {2,2}, {2,3}, {2,4} };
    scfg_t c; xcfg_t x; memset(&c, 0, sizeof c); memset(&x, 0, sizeof x); c.cca = 1; c.seed = 7; c.ncver = c.nsver = 1; c.cver[0] = c.sver[0] = 3; c.dtls = 1;
    if (hs_new(&c, &x) != 0) { printf("g12d:newfail"); return; }
    peer_t *p = role ? &g_s : &g_c; ssl_t *s = p->ssl;
    { int sq = g_quiet; g_quiet = 1; flush_out(&g_c); g_quiet = sq; }
    sslSessionId_t *sid_saved = s->sid; static sslSessionId_t fakesid; static char code[256][24];
    for (int k = 0; k < 16; k++) for (int hc = 0; hc < 2; hc++) for (int pi = 0; pi < 10; pi++) {
        int counts[4] = { 0, 0, 0, 0 };
        for (int t = 0; t < 256; t++) {
            ssl_t keep; memcpy(&keep, s, sizeof keep);
            s->hsState = (uint8_t) hs;
            s->flags &= ~(SSL_FLAGS_READ_SECURE | SSL_FLAGS_WRITE_SECURE | SSL_FLAGS_PSK_CIPHER | SSL_FLAGS_DHE_KEY_EXCH | SSL_FLAGS_ERROR | SSL_FLAGS_CLOSED | SSL_FLAGS_CLIENT_AUTH);
            if (k & 1) s->flags |= SSL_FLAGS_PSK_CIPHER;
            if (k & 2) s->flags |= SSL_FLAGS_DHE_KEY_EXCH;
            memset(&fakesid, 0, sizeof fakesid); s->sid = &fakesid; fakesid.sessionTicketState = (k & 4) ? SESS_TICKET_STATE_RECVD_EXT : SESS_TICKET_STATE_INIT;
            if (k & 8) s->flags |= SSL_FLAGS_CLIENT_AUTH;
            s->haveCookie = hc; s->lastMsn = pairs[pi][0]; s->err = SSL_ALERT_NONE;
            unsigned char rec[25] = { 22, 0xfe, 0xfd, 0, 0, 0, 0, 0, 0, 0, 9, 0, 12, (unsigned char) t, 0, 0, 0, 0, (unsigned char) pairs[pi][1], 0, 0, 0, 0, 0, 0 };
            unsigned char *rb; int32 room = matrixSslGetReadbuf(s, &rb);
            int32 rc = -999; unsigned char *pt; uint32 ptl;
            g_cur_ssl = s; g_gate_calls = 0; g_gate_hs = -1; g_probe_t = t;
            if (room >= 25 && setjmp(g_probe_jmp) == 0) { memcpy(rb, rec, 25); rc = matrixSslReceivedData(s, 25, &pt, &ptl); }
            g_cur_ssl = NULL; g_probe_t = -1;
            int err = (int) s->err, hsa = (int) s->hsState;
            int warn100 = s->outlen >= 15 && s->outbuf[0] == 21 && s->outbuf[13] == 1 && s->outbuf[14] == 100;
            int untouched = err == SSL_ALERT_NONE && hsa == hs && s->outlen == 0 && !(s->flags & SSL_FLAGS_ERROR) && s->lastMsn == pairs[pi][0];
            code[t][0] = 0;
            if (g_gate_calls == 0 && err == SSL_ALERT_UNEXPECTED_MESSAGE && (hsa == hs || hs == SSL_HS_HELLO_REQUEST)) counts[0]++;
            else if (g_gate_calls == 0 && warn100 && err == SSL_ALERT_NONE && hsa == hs && !(s->flags & SSL_FLAGS_ERROR)) { counts[1]++; strcpy(code[t], "n"); }
            else if (g_gate_calls > 0) { counts[2]++; snprintf(code[t], sizeof code[t], "p%d", g_gate_hs); }
            else if (untouched && rc == MATRIXSSL_REQUEST_SEND) { counts[3]++; strcpy(code[t], "x"); }
            else if (untouched) { counts[3]++; strcpy(code[t], "f"); }
            else { counts[3]++; snprintf(code[t], sizeof code[t], "o%d:%d:%d", err, hsa, (int) rc); }
            void *ib = s->inbuf, *ob = s->outbuf; int32 isz = s->insize, osz = s->outsize;
            memcpy(s, &keep, sizeof keep);
            s->inbuf = ib; s->outbuf = ob; s->insize = isz; s->outsize = osz; s->inlen = 0; s->outlen = 0;
        }
        printf("g12d:");
        for (int t = 0; t < 256; ) {
            if (!code[t][0]) { t++; continue; }
            int e = t; while (e + 1 < 256 && !strcmp(code[e+1], code[t])) e++;
            if (e > t) printf("%d-%d:%s ", t, e, code[t]); else printf("%d:%s ", t, code[t]);
            t = e + 1;
        }
        printf("u=%d n=%d p=%d o=%d ; ", counts[0], counts[1], counts[2], counts[3]);
    }
    s->sid = sid_saved;
}
#endif

/* ---------------------------------------------------------------- commands */
static void run_cmd(char **a, int n) {
    if (n == 0) return;
    if (!strcmp(a[0], "new")) do_new(a + 1, n - 1);
    else if (!strcmp(a[0], "mq")) { collect(); printf("mq:"); print_items(0); printf(" "); print_items(1); }
    else if (!strcmp(a[0], "md") && n >= 2) { md(dirof(a[1]), n >= 3 ? atoi(a[2]) : 1); }
    else if (!strcmp(a[0], "mrun")) {
        int max = n >= 2 ? atoi(a[1]) : 200, k = 0, moved = 1;
        while (moved && k < max) { moved = 0; collect();
            while (g_nit[0] && k < max) { md(0, 1); k++; moved = 1; }
            while (g_nit[1] && k < max) { md(1, 1); k++; moved = 1; } }
        printf("mrun:%d", k);
    }
    else if (!strcmp(a[0], "mdel") && n >= 3) { collect(); int d = dirof(a[1]), i = atoi(a[2]); if (i < g_nit[d]) { item_remove(d, i); printf("mdel:ok"); } else printf("mdel:range"); }
    else if (!strcmp(a[0], "mdup") && n >= 3) { collect(); int d = dirof(a[1]), i = atoi(a[2]); if (i < g_nit[d]) { item_t t; item_copy(&t, &g_it[d][i]); item_insert(d, i + 1, &t); if (n >= 4 && !strcmp(a[3], "stale")) { g_it[d][i+1].msn = t.msn; g_it[d][i+1].retx = 1; } item_free(&t); printf("mdup:ok"); } else printf("mdup:range"); }
    else if (!strcmp(a[0], "mswap") && n >= 3) { collect(); int d = dirof(a[1]), i = atoi(a[2]); if (i + 1 < g_nit[d]) { item_t t = g_it[d][i]; g_it[d][i] = g_it[d][i+1]; g_it[d][i+1] = t; printf("mswap:ok"); } else printf("mswap:range"); }
    else if (!strcmp(a[0], "msub") && n >= 4) { collect(); int d = dirof(a[1]), i = atoi(a[2]); if (i < g_nit[d] && g_it[d][i].kind == 22) { g_it[d][i].t = atoi(a[3]); g_it[d][i].b[0] = (unsigned char) atoi(a[3]); printf("msub:ok"); } else printf("msub:range"); }
    else if (!strcmp(a[0], "mins") && n >= 4) {
        collect(); int d = dirof(a[1]), i = atoi(a[2]); item_t t; memset(&t, 0, sizeof t);
        if (!strcmp(a[3], "ccs")) { t.kind = 20; t.t = 1; t.g = 1; t.b = malloc(2); t.b[0] = 1; t.len = 1; }
        else { unsigned char *body = NULL; size_t bl = n >= 5 ? unhex(a[4], &body) : 0; t.kind = 22; t.t = atoi(a[3]); t.g = -1; t.b = malloc(bl + 5);
               t.b[0] = (unsigned char) t.t; t.b[1] = (unsigned char) (bl >> 16); t.b[2] = (unsigned char) (bl >> 8); t.b[3] = (unsigned char) bl; if (bl) memcpy(t.b + 4, body, bl); t.len = bl + 4; free(body); }
        item_insert(d, i, &t); free(t.b); printf("mins:ok");
    }
    else if (!strcmp(a[0], "mhex") && n >= 3) { collect(); int d = dirof(a[1]), i = atoi(a[2]); if (i < g_nit[d]) { printf("mhex:"); puthex(g_it[d][i].b, g_it[d][i].len); } else printf("mhex:range"); }
    else if (!strcmp(a[0], "medit") && n >= 5) { collect(); int d = dirof(a[1]), i = atoi(a[2]); size_t off = (size_t) atoi(a[3]); if (i < g_nit[d] && off < g_it[d][i].len) { g_it[d][i].b[off] = (unsigned char) strtol(a[4], NULL, 16); printf("medit:ok"); } else printf("medit:range"); }
    else if (!strcmp(a[0], "mtamper") && n >= 5) {
        if (g_ntamper < 16) {
            tamper_t *t = &g_tamper[g_ntamper++]; t->dir = a[1][0] == 's' ? 1 : 0; t->type = atoi(a[2]); t->occ = atoi(a[3]);
            t->mode = !strcmp(a[4], "omit") ? T_OMIT : !strcmp(a[4], "after") ? T_AFTER : T_INSTEAD; t->slot = n >= 6 ? atoi(a[5]) % NSLOT : 0;
            printf("mtamper:ok");
        } else printf("mtamper:full");
    }
    else if (!strcmp(a[0], "msave") && n >= 4) { collect(); int d = dirof(a[1]), i = atoi(a[2]), sl = atoi(a[3]) % NSLOT; if (i < g_nit[d]) { item_free(&g_slot[sl]); item_copy(&g_slot[sl], &g_it[d][i]); printf("msave:%c%d", kindch(&g_slot[sl]), g_slot[sl].t); } else printf("msave:range"); }
    else if (!strcmp(a[0], "mload") && n >= 4) { collect(); int d = dirof(a[1]), i = atoi(a[2]), sl = atoi(a[3]) % NSLOT; if (g_slot[sl].b) { item_insert(d, i, &g_slot[sl]); printf("mload:%c%d", kindch(&g_slot[sl]), g_slot[sl].t); } else printf("mload:empty"); }
    else if (!strcmp(a[0], "app") && n >= 3) {
        unsigned char *d; size_t l = unhex(a[2], &d); peer_t *p = a[1][0] == 's' ? &g_s : &g_c;
        int32 rc = p->ssl ? matrixSslEncodeToOutdata(p->ssl, d, (uint32) l) : -999;
        printf("app:%s rc=%s", a[1], rc >= 0 ? "OK" : rcname(rc)); free(d); collect();
    }
    else if (!strcmp(a[0], "st")) { printf("st:c="); print_xsnap(&g_c); printf(" s="); print_xsnap(&g_s); }
    else if (!strcmp(a[0], "gate13") && n >= 3) do_gate13(atoi(a[1]), atoi(a[2]));
#ifdef USE_DTLS
    else if (!strcmp(a[0], "gate12d") && n >= 3) do_gate12d(atoi(a[1]), atoi(a[2]));
#endif
    else if (!strcmp(a[0], "gate12") && n >= 3) { g_g12_only = n >= 4 ? atoi(a[3]) : -1; do_gate12(atoi(a[1]), atoi(a[2])); }
    else printf("?%s", a[0]);
}

int main(void)
{
    if (matrixSslOpen() < 0) { printf("INITFAIL\n"); return 2; }
    while (next_case()) {
        int i = 0;
        while (i < g_ntok) {
            int j = i; while (j < g_ntok && strcmp(g_tok[j], ";") != 0) j++;
            run_cmd(g_tok + i, j - i);
            if (j < g_ntok) printf(" | ");
            i = j + 1;
        }
        printf("\n"); fflush(stdout);
    }
    return 0;
}
