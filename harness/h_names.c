/* C05 harness: drives matrixValidateCertsExt's expected-name section on a genuinely signed
   leaf (testkeys RSA2048 under RSA2048CA) whose subjectAltName list / commonName are replaced by
   the case's values, and psX509ValidateGeneralName on the expected name. */
#define WRAP_TIME
#include "matrixssl/matrixsslImpl.h"
#include "hcommon.h"
#include "testkeys/RSA/2048_RSA.h"
#include "testkeys/RSA/2048_RSA_CA.h"
#include "c05_chain.h"

static void free_san(x509GeneralName_t *n)
{
    while (n) { x509GeneralName_t *nx = n->next; psFree(n->data, NULL); psFree(n->oid, NULL); psFree(n, NULL); n = nx; }
}

int main(void)
{
    if (psCryptoOpen(PSCRYPTO_CONFIG) < 0) { printf("INITFAIL\n"); return 2; }
    while (next_case()) {
        if (g_ntok == 8 && (strcmp(g_tok[0], "nc") == 0 || strcmp(g_tok[0], "ncc") == 0)) {
            int chain = strcmp(g_tok[0], "ncc") == 0;   /* leaf + intermediate presented, only the root trusted */
            matrixValidateCertsOptions_t opts; memset(&opts, 0, sizeof(opts));
            if (g_tok[1][0] == '1') opts.flags |= VCERTS_FLAG_SKIP_EXPECTED_NAME_VALIDATION;
            if (g_tok[2][0] == '1') opts.mFlags |= VCERTS_MFLAG_ALWAYS_CHECK_SUBJECT_CN;
            if (g_tok[3][0] == '1') opts.mFlags |= VCERTS_MFLAG_SAN_EMAIL_CASE_INSENSITIVE_LOCAL_PART;
            opts.nameType = atoi(g_tok[4]);
            unsigned char *expected; unhex(g_tok[5], &expected);
            psX509Cert_t *leaf = NULL, *ca = NULL, *found = NULL;
            psX509Cert_t *inter = NULL;
            g_pin_year = chain ? 2030 : 2020;
            if (!chain) {
                if (psX509ParseCert(NULL, RSA2048, sizeof(RSA2048), &leaf, 0) < 0 ||
                    psX509ParseCert(NULL, RSA2048CA, sizeof(RSA2048CA), &ca, 0) < 0) { printf("PARSEFAIL\n"); continue; }
            } else {
                if (psX509ParseCert(NULL, C05_LEAF, sizeof(C05_LEAF), &leaf, 0) < 0 ||
                    psX509ParseCert(NULL, C05_INTER, sizeof(C05_INTER), &inter, 0) < 0 ||
                    psX509ParseCert(NULL, C05_ROOT, sizeof(C05_ROOT), &ca, 0) < 0) { printf("PARSEFAIL\n"); continue; }
                leaf->next = inter;
                /* decoy: the INTERMEDIATE carries the expected name in SAN and CN; only the leaf's names may count */
                size_t el = strlen((char *) expected);
                free_san(inter->extensions.san); inter->extensions.san = NULL;
                if (el > 0) {
                    x509GeneralName_t *dn = psMalloc(NULL, sizeof(*dn)); memset(dn, 0, sizeof(*dn));
                    dn->id = GN_DNS; dn->data = psMalloc(NULL, el + 1); memcpy(dn->data, expected, el + 1); dn->dataLen = (psSize_t) el;
                    inter->extensions.san = dn;
                }
                psFree(inter->subject.commonName, NULL);
                inter->subject.commonName = psMalloc(NULL, el + 2); memcpy(inter->subject.commonName, expected, el + 1);
                inter->subject.commonName[el + 1] = 0; inter->subject.commonNameLen = (short) (el + 2);
            }
            /* replace CN */
            psFree(leaf->subject.commonName, NULL); leaf->subject.commonName = NULL; leaf->subject.commonNameLen = 0;
            if (strcmp(g_tok[6], "NULL") != 0) {
                unsigned char *cn; size_t l = unhex(g_tok[6], &cn);
                leaf->subject.commonName = psMalloc(NULL, l + 2); memcpy(leaf->subject.commonName, cn, l);
                leaf->subject.commonName[l] = 0; leaf->subject.commonName[l+1] = 0; leaf->subject.commonNameLen = (short)(l + 2);
                free(cn);
            }
            /* replace SAN list */
            free_san(leaf->extensions.san); leaf->extensions.san = NULL;
            x509GeneralName_t **tail = &leaf->extensions.san;
            if (strcmp(g_tok[7], "-") != 0) {
                char *save = NULL;
                for (char *e = strtok_r(g_tok[7], ",", &save); e; e = strtok_r(NULL, ",", &save)) {
                    char *colon = strchr(e, ':'); *colon = 0;
                    x509GeneralName_t *n = psMalloc(NULL, sizeof(*n)); memset(n, 0, sizeof(*n));
                    n->id = (x509GeneralNameType_t) atoi(e);
                    unsigned char *d; size_t l = unhex(colon + 1, &d);
                    n->data = psMalloc(NULL, l + 1); memcpy(n->data, d, l); n->data[l] = 0; n->dataLen = (psSize_t) l; free(d);
                    *tail = n; tail = &n->next;
                }
            }
            int v = psX509ValidateGeneralName((char *) expected) == 0;
            int32 rc = matrixValidateCertsExt(NULL, leaf, ca, (char *) expected, &found, NULL, NULL, &opts);
            int m;
            if (rc == 0) m = 1;
            else if (rc == PS_CERT_AUTH_FAIL_EXTENSION && (leaf->authFailFlags & PS_CERT_AUTH_FAIL_SUBJECT_FLAG)) m = 0;
            else m = -rc + 1000;   /* unexpected: authentication itself failed */
            printf("v=%d m=%d\n", v, m);
            psX509FreeCert(leaf); psX509FreeCert(ca); free(expected);
        } else if (g_ntok == 7 && strcmp(g_tok[0], "ne") == 0) {
            /* end to end: ne <skip> <alwayscn> <emailci> <nametype> <expected hex> <certificate DER hex>: a certificate assembled and
               signed (testkeys RSA2048 CA) by the check goes through psX509ParseCert and matrixValidateCertsExt unmodified */
            matrixValidateCertsOptions_t opts; memset(&opts, 0, sizeof(opts));
            if (g_tok[1][0] == '1') opts.flags |= VCERTS_FLAG_SKIP_EXPECTED_NAME_VALIDATION;
            if (g_tok[2][0] == '1') opts.mFlags |= VCERTS_MFLAG_ALWAYS_CHECK_SUBJECT_CN;
            if (g_tok[3][0] == '1') opts.mFlags |= VCERTS_MFLAG_SAN_EMAIL_CASE_INSENSITIVE_LOCAL_PART;
            opts.nameType = atoi(g_tok[4]);
            unsigned char *expected, *der; unhex(g_tok[5], &expected); size_t dl = unhex(g_tok[6], &der);
            psX509Cert_t *leaf = NULL, *ca = NULL, *found = NULL;
            g_pin_year = 2020;
            int v = psX509ValidateGeneralName((char *) expected) == 0;
            int32 prc = psX509ParseCert(NULL, der, (uint32) dl, &leaf, 0);
            if (prc < 0 || psX509ParseCert(NULL, RSA2048CA, sizeof(RSA2048CA), &ca, 0) < 0) {
                printf("v=%d m=P%d\n", v, (int) -prc);
            } else {
                int32 rc = matrixValidateCertsExt(NULL, leaf, ca, (char *) expected, &found, NULL, NULL, &opts);
                int m;
                if (rc == 0) m = 1;
                else if (rc == PS_CERT_AUTH_FAIL_EXTENSION && (leaf->authFailFlags & PS_CERT_AUTH_FAIL_SUBJECT_FLAG)) m = 0;
                else m = -rc + 1000;
                printf("v=%d m=%d\n", v, m);
            }
            if (leaf) psX509FreeCert(leaf);
            if (ca) psX509FreeCert(ca);
            free(expected); free(der);
        } else printf("BADCASE\n");
        fflush(stdout);
    }
    return 0;
}
