/* C11 harness: public-key verification / key-agreement entry points of the library built from
   /repo's working tree, driven with REAL signatures: the case supplies the encoded block (em) and the
   harness raises it to the test key's private exponent (raw psRsaCrypt) before calling the public
   verification entry points.  One case per stdin line, one canonical result line per case.

   rsakey <bits>                               N e d size
   eckey <bits>                                curve size d qx qy
   dhp <name>                                  p g
   rv  <bits> <sigAlg> <di> <msg> <em>         real signature of em; pubRsaDecryptSignedElementExt / psRsaDecryptPub + psVerifySig
   rs  <bits> <sigAlg> <di> <msg> <sig> <aux>  raw signature bytes of any length
   rv2 <bits> <sigAlg> <msg> <em>              psVerifySig twice on the SAME signature buffer
   pv  <bits> <hashId> <saltLen> <msg> <em>    RSASSA-PSS: real signature of em
   ps  <bits> <hashId> <saltLen> <msg> <sig> <aux>
   up  <type> <verify> <outlen> <outcap> <em>  pkcs1UnpadExt directly
   dp  <bits> <outlen> <em>                    psRsaDecryptPriv on em^e
   ev  <curveId> <point> <hash> <sigDER> <o>   psEccDsaVerify + psVerifySig under the imported public key (o: model-only oracle)
   ei  <curveId> <point>                       psEccX963ImportKey
   es  <curveId> <d> <point>                   import + psEccGenSharedSecret
   esign <bits> <hash>                         psEccDsaSign (random nonce) -> DER signature
   rsign <bits> <hash>                         privRsaEncryptSignedElement
   psign <bits> <hashId> <salt> <hash>         psRsaPssSignHash
   renc <bits> <msg>                           psRsaEncryptPub -> ciphertext
   dh  <p> <priv> <pub>                        psDhImportPubKey + psDhGenSharedSecret
   x25519 <priv> <pub>                         psDhX25519GenSharedSecret
   edv <pub> <msg> <sig>                       psEd25519Verify
   eds <priv> <pub> <msg>                      psEd25519Sign
*/
#include "matrixssl/matrixsslImpl.h"
#include "hcommon.h"
#include <unistd.h>
#include <sys/wait.h>
#include "testkeys/RSA/1024_RSA_KEY.h"
#include "testkeys/RSA/2048_RSA_KEY.h"
#include "testkeys/RSA/3072_RSA_KEY.h"
#include "testkeys/RSA/4096_RSA_KEY.h"
#include "testkeys/EC/192_EC_KEY.h"
#include "testkeys/EC/224_EC_KEY.h"
#include "testkeys/EC/256_EC_KEY.h"
#include "testkeys/EC/384_EC_KEY.h"
#include "testkeys/EC/521_EC_KEY.h"
#include "testkeys/DH/1024_DH_PARAMS.h"
#include "testkeys/DH/2048_DH_PARAMS.h"
#include "testkeys/DH/ffdhe2048_DH_PARAMS.h"

extern const psEccCurve_t eccCurves[];

static psPubKey_t g_rsa[4]; static int g_rsa_ok[4];
static psEccKey_t g_ec[5]; static int g_ec_ok[5];
static const int rsa_bits[4] = { 1024, 2048, 3072, 4096 };
static const int ec_bits[5] = { 192, 224, 256, 384, 521 };

static psPubKey_t *rsa_by_bits(int bits)
{
    static const unsigned char *buf[4] = { RSA1024KEY, RSA2048KEY, RSA3072KEY, RSA4096KEY };
    static const int len[4] = { RSA1024KEY_SIZE, RSA2048KEY_SIZE, sizeof(RSA3072KEY), RSA4096KEY_SIZE };
    for (int i = 0; i < 4; i++) if (rsa_bits[i] == bits) {
        if (!g_rsa_ok[i]) {
            memset(&g_rsa[i], 0, sizeof(g_rsa[i]));
            g_rsa[i].type = PS_RSA;
            if (psRsaParsePkcs1PrivKey(NULL, buf[i], len[i], &g_rsa[i].key.rsa) < 0) return NULL;
            g_rsa[i].keysize = g_rsa[i].key.rsa.size;
            g_rsa_ok[i] = 1;
        }
        return &g_rsa[i];
    }
    return NULL;
}
static psEccKey_t *ec_by_bits(int bits)
{
    static const unsigned char *buf[5] = { EC192KEY, EC224KEY, EC256KEY, EC384KEY, EC521KEY };
    static const int len[5] = { EC192KEY_SIZE, EC224KEY_SIZE, EC256KEY_SIZE, EC384KEY_SIZE, EC521KEY_SIZE };
    for (int i = 0; i < 5; i++) if (ec_bits[i] == bits) {
        if (!g_ec_ok[i]) {
            memset(&g_ec[i], 0, sizeof(g_ec[i]));
            if (psEccParsePrivKey(NULL, buf[i], len[i], &g_ec[i], NULL) < 0) return NULL;
            g_ec_ok[i] = 1;
        }
        return &g_ec[i];
    }
    return NULL;
}
static const psEccCurve_t *curve_by_id(int id)
{
    for (int i = 0; eccCurves[i].size > 0; i++) if (eccCurves[i].curveId == id) return &eccCurves[i];
    return NULL;
}
static void put_pstm(const pstm_int *a)
{
    int n = pstm_unsigned_bin_size(a);
    if (n == 0) { fputs("0", stdout); return; }
    unsigned char *b = malloc(n + 8);
    pstm_to_unsigned_bin(NULL, a, b);
    puthex(b, n); free(b);
}

/* run f in a child process when the call may smash the stack; returns 0 and fills rc/res on normal exit */
typedef struct { int rc; int res; } vr_t;
static vr_t verify_guarded(const unsigned char *msg, size_t msgLen, unsigned char *sig, size_t sigLen,
                           psPubKey_t *key, int alg, psVerifyOptions_t *o, int guard)
{
    vr_t r = { 0, 0 };
    if (!guard) {
        psBool_t res = PS_FALSE;
        r.rc = psVerifySig(NULL, msg, msgLen, sig, (psSize_t) sigLen, key, alg, &res, o);
        r.res = res ? 1 : 0;
        return r;
    }
    int fd[2];
    fflush(stdout);
    if (pipe(fd) < 0) { r.rc = -9999; return r; }
    pid_t pid = fork();
    if (pid == 0) {
        psBool_t res = PS_FALSE;
        close(fd[0]);
        vr_t c;
        c.rc = psVerifySig(NULL, msg, msgLen, sig, (psSize_t) sigLen, key, alg, &res, o);
        c.res = res ? 1 : 0;
        if (write(fd[1], &c, sizeof(c)) != sizeof(c)) _exit(3);
        _exit(0);
    }
    close(fd[1]);
    int st = 0; ssize_t n = read(fd[0], &r, sizeof(r)); close(fd[0]);
    waitpid(pid, &st, 0);
    if (n != sizeof(r) || !WIFEXITED(st) || WEXITSTATUS(st) != 0) { r.rc = -7777; r.res = 0; }   /* crashed */
    return r;
}

/* raw private-key operation: sig = em^d mod N ; returns 0 on success */
static int raw_priv(psPubKey_t *k, const unsigned char *em, size_t emLen, unsigned char *sig)
{
    psSize_t l = k->keysize;
    if (emLen != k->keysize) return -1;
    return psRsaCrypt(NULL, &k->key.rsa, em, (psSize_t) emLen, sig, &l, PS_PRIVKEY, NULL) < 0 || l != k->keysize ? -1 : 0;
}

static void do_rsa_verify(psPubKey_t *k, int alg, int di, unsigned char *msg, size_t msgLen, unsigned char *sig, size_t sigLen)
{
    unsigned char out[1024]; unsigned char *copy = malloc(sigLen + 1);
    int rc;
    memset(out, 0, sizeof(out));
    memcpy(copy, sig, sigLen);
    if (di) {
        /* hashOut must hold hashOutLen bytes; invalid combinations are refused before any write */
        rc = pubRsaDecryptSignedElementExt(NULL, &k->key.rsa, copy, (psSize_t) sigLen, out, (psSize_t) msgLen, alg, NULL);
        printf(" d=%d:", rc); if (rc == 0) puthex(out, msgLen); else fputs("-", stdout);
    } else {
        rc = psRsaDecryptPub(NULL, &k->key.rsa, copy, (psSize_t) sigLen, out, (psSize_t) msgLen, NULL);
        printf(" d=%d:", rc); if (rc == 0) puthex(out, msgLen); else fputs("-", stdout);
    }
    memcpy(copy, sig, sigLen);
    psVerifyOptions_t o; memset(&o, 0, sizeof(o)); o.msgIsDigestInfo = di ? PS_TRUE : PS_FALSE;
    vr_t v = verify_guarded(msg, msgLen, copy, sigLen, k, alg, &o, (!di && msgLen > SHA512_HASH_SIZE));
    printf(" v=%d:%d", v.rc, v.res);
    free(copy);
}

static int pss_hashlen_sigalg(int hashId)
{
    switch (hashId) {
    case PKCS1_SHA1_ID: return OID_SHA1_RSA_SIG;
    case PKCS1_SHA256_ID: return OID_SHA256_RSA_SIG;
    case PKCS1_SHA384_ID: return OID_SHA384_RSA_SIG;
    case PKCS1_SHA512_ID: return OID_SHA512_RSA_SIG;
    default: return OID_SHA256_RSA_SIG;
    }
}
static void do_pss_verify(psPubKey_t *k, int hashId, int saltLen, unsigned char *msg, size_t msgLen, unsigned char *sig, size_t sigLen, const unsigned char *em, size_t emLen)
{
    if (em) {
        int32 res = -5;
        int rc = psPkcs1PssDecode(NULL, msg, (uint32) msgLen, em, (uint32) emLen, (uint32) saltLen, hashId, k->keysize * 8, &res);
        printf(" d=%d:%d", rc, rc == 0 ? res : 0);
    } else printf(" d=-:0");
    unsigned char *copy = malloc(sigLen + 1); memcpy(copy, sig, sigLen);
    psVerifyOptions_t o; memset(&o, 0, sizeof(o));
    o.useRsaPss = PS_TRUE; o.rsaPssHashAlg = hashId; o.rsaPssSaltLen = (psSize_t) saltLen;
    psBool_t r = PS_FALSE;
    int rc = psVerifySig(NULL, msg, msgLen, copy, (psSize_t) sigLen, k, pss_hashlen_sigalg(hashId), &r, &o);
    printf(" v=%d:%d", rc, r ? 1 : 0);
    free(copy);
}

int main(void)
{
    if (psCryptoOpen(PSCRYPTO_CONFIG) < 0) { printf("INITFAIL\n"); return 2; }
    while (next_case()) {
        const char *c = g_ntok ? g_tok[0] : "";
        if (!strcmp(c, "rsakey") && g_ntok == 2) {
            psPubKey_t *k = rsa_by_bits(atoi(g_tok[1]));
            if (!k) { printf("NOKEY\n"); continue; }
            printf("N="); put_pstm(&k->key.rsa.N); printf(" e="); put_pstm(&k->key.rsa.e);
            printf(" d="); put_pstm(&k->key.rsa.d); printf(" size=%d\n", (int) k->keysize);
        } else if (!strcmp(c, "eckey") && g_ntok == 2) {
            psEccKey_t *k = ec_by_bits(atoi(g_tok[1]));
            if (!k) { printf("NOKEY\n"); continue; }
            printf("curve=%d size=%d d=", (int) k->curve->curveId, (int) k->curve->size); put_pstm(&k->k);
            printf(" qx="); put_pstm(&k->pubkey.x); printf(" qy="); put_pstm(&k->pubkey.y); printf("\n");
        } else if (!strcmp(c, "dhp") && g_ntok == 2) {
            psDhParams_t p; memset(&p, 0, sizeof(p)); int rc = -1;
            if (!strcmp(g_tok[1], "1024")) rc = psPkcs3ParseDhParamBin(NULL, DHPARAM1024, DHPARAM1024_SIZE, &p);
            else if (!strcmp(g_tok[1], "2048")) rc = psPkcs3ParseDhParamBin(NULL, DHPARAM2048, DHPARAM2048_SIZE, &p);
            else if (!strcmp(g_tok[1], "ffdhe2048")) rc = psPkcs3ParseDhParamBin(NULL, ffdhe2048_DH_PARAMS, ffdhe2048_DH_PARAMS_SIZE, &p);
            if (rc < 0) { printf("NOPARAMS\n"); continue; }
            printf("p="); put_pstm(&p.p); printf(" g="); put_pstm(&p.g); printf("\n");
            psPkcs3ClearDhParams(&p);
        } else if (!strcmp(c, "rv") && g_ntok == 6) {
            psPubKey_t *k = rsa_by_bits(atoi(g_tok[1]));
            unsigned char *msg, *em; size_t ml = unhex(g_tok[4], &msg), el = unhex(g_tok[5], &em);
            unsigned char sig[600];
            if (!k || raw_priv(k, em, el, sig) < 0) { printf("SIGNFAIL\n"); free(msg); free(em); continue; }
            printf("sig="); puthex(sig, k->keysize);
            do_rsa_verify(k, atoi(g_tok[2]), atoi(g_tok[3]), msg, ml, sig, k->keysize);
            printf("\n"); free(msg); free(em);
        } else if (!strcmp(c, "rs") && g_ntok == 7) {
            psPubKey_t *k = rsa_by_bits(atoi(g_tok[1]));
            unsigned char *msg, *sig, *aux; size_t ml = unhex(g_tok[4], &msg), sl = unhex(g_tok[5], &sig), al = unhex(g_tok[6], &aux);
            if (!k) { printf("NOKEY\n"); continue; }
            /* x: the library's raw public operation agrees with the exact-integer em supplied by the case */
            if (al == 0 || !strcmp(g_tok[6], "L")) printf("x=-");
            else {
                unsigned char tmp[1200]; psSize_t tl = sizeof(tmp);
                int rc = psRsaCrypt(NULL, &k->key.rsa, sig, (psSize_t) sl, tmp, &tl, PS_PUBKEY, NULL);
                printf("x=%d", rc == 0 && tl == al && memcmp(tmp + (tl > k->keysize ? 0 : 0), aux, al) == 0);
            }
            do_rsa_verify(k, atoi(g_tok[2]), atoi(g_tok[3]), msg, ml, sig, sl);
            printf("\n"); free(msg); free(sig); free(aux);
        } else if (!strcmp(c, "rv2") && g_ntok == 5) {
            psPubKey_t *k = rsa_by_bits(atoi(g_tok[1]));
            unsigned char *msg, *em; size_t ml = unhex(g_tok[3], &msg), el = unhex(g_tok[4], &em);
            unsigned char sig[600], orig[600];
            if (!k || raw_priv(k, em, el, sig) < 0) { printf("SIGNFAIL\n"); continue; }
            memcpy(orig, sig, k->keysize);
            psVerifyOptions_t o; memset(&o, 0, sizeof(o)); o.msgIsDigestInfo = PS_TRUE;
            psBool_t r1 = 0, r2 = 0;
            int rc1 = psVerifySig(NULL, msg, ml, sig, k->keysize, k, atoi(g_tok[2]), &r1, &o);
            int kept = memcmp(orig, sig, k->keysize) == 0;
            int rc2 = psVerifySig(NULL, msg, ml, sig, k->keysize, k, atoi(g_tok[2]), &r2, &o);
            printf("v1=%d:%d kept=%d v2=%d:%d\n", rc1, r1 ? 1 : 0, kept, rc2, r2 ? 1 : 0);
            free(msg); free(em);
        } else if (!strcmp(c, "pv") && g_ntok == 6) {
            psPubKey_t *k = rsa_by_bits(atoi(g_tok[1]));
            unsigned char *msg, *em; size_t ml = unhex(g_tok[4], &msg), el = unhex(g_tok[5], &em);
            unsigned char sig[600];
            if (!k || raw_priv(k, em, el, sig) < 0) { printf("SIGNFAIL\n"); free(msg); free(em); continue; }
            printf("sig="); puthex(sig, k->keysize);
            do_pss_verify(k, atoi(g_tok[2]), atoi(g_tok[3]), msg, ml, sig, k->keysize, em, el);
            printf("\n"); free(msg); free(em);
        } else if (!strcmp(c, "ps") && g_ntok == 7) {
            psPubKey_t *k = rsa_by_bits(atoi(g_tok[1]));
            unsigned char *msg, *sig, *aux; size_t ml = unhex(g_tok[4], &msg), sl = unhex(g_tok[5], &sig), al = unhex(g_tok[6], &aux);
            if (!k) { printf("NOKEY\n"); continue; }
            printf("x=-");
            do_pss_verify(k, atoi(g_tok[2]), atoi(g_tok[3]), msg, ml, sig, sl, NULL, 0);
            printf("\n"); free(msg); free(sig); free(aux);
        } else if (!strcmp(c, "up") && g_ntok == 6) {
            unsigned char *em; size_t el = unhex(g_tok[5], &em);
            int outlen = atoi(g_tok[3]), outcap = atoi(g_tok[4]);
            /* exact-size copy of the block so that an over-read leaves the allocation */
            unsigned char *in = malloc(el ? el : 1); memcpy(in, em, el);
            unsigned char *out = calloc(1, outcap + 4096);
            psSize_t ul = 0;
            int rc = 0;
            int verify = atoi(g_tok[2]);
            /* the function reads in[0] and in[1] unconditionally (the verifying mode refuses such a length first):
               a block shorter than 2 bytes would be over-read, the call is not made */
            if (el < 2 && !verify) { printf("u=FAULT\n"); free(in); free(out); free(em); continue; }
            rc = pkcs1UnpadExt(in, (psSize_t) el, out, (psSize_t) outlen, (uint8_t) atoi(g_tok[1]), verify ? PS_TRUE : PS_FALSE, &ul);
            if (rc == 0 && (int) ul > outcap) { printf("u=FAULT\n"); free(in); free(out); free(em); continue; }   /* wrote past the announced capacity */
            printf("u=%d:", rc); if (rc == 0) puthex(out, ul); else fputs("-", stdout); printf("\n");
            free(in); free(out); free(em);
        } else if (!strcmp(c, "dp") && g_ntok == 4) {
            psPubKey_t *k = rsa_by_bits(atoi(g_tok[1]));
            unsigned char *em; size_t el = unhex(g_tok[3], &em); int outlen = atoi(g_tok[2]);
            unsigned char ct[600], out[600]; psSize_t cl = sizeof(ct);
            if (!k || el != k->keysize || psRsaCrypt(NULL, &k->key.rsa, em, (psSize_t) el, ct, &cl, PS_PUBKEY, NULL) < 0) { printf("ENCFAIL\n"); continue; }
            int rc = psRsaDecryptPriv(NULL, &k->key.rsa, ct, cl, out, (psSize_t) outlen, NULL);
            printf("p=%d:", rc); if (rc == 0) puthex(out, outlen); else fputs("-", stdout); printf("\n");
            free(em);
        } else if ((!strcmp(c, "ev") || !strcmp(c, "evr")) && g_ntok == 6) {   /* token 5: scalar-multiple oracle for the model, unused here */
            const psEccCurve_t *cv = curve_by_id(atoi(g_tok[1]));
            unsigned char *pt, *h, *sig; size_t pl = unhex(g_tok[2], &pt), hl = unhex(g_tok[3], &h), sl = unhex(g_tok[4], &sig);
            psPubKey_t pk; memset(&pk, 0, sizeof(pk)); pk.type = PS_ECC;
            if (!cv || psEccX963ImportKey(NULL, pt, (psSize_t) pl, &pk.key.ecc, cv) < 0) { printf("IMPORTFAIL\n"); continue; }
            pk.keysize = cv->size * 2;
            unsigned char *sc = malloc(sl ? sl : 1); memcpy(sc, sig, sl);      /* exact-size copy */
            int32_t st = -5;
            int rc = psEccDsaVerify(NULL, &pk.key.ecc, h, (psSize_t) hl, sc, (psSize_t) sl, &st, NULL);
            psBool_t r = PS_FALSE;
            int rc2 = psVerifySig(NULL, h, hl, sc, (psSize_t) sl, &pk, OID_SHA256_ECDSA_SIG, &r, NULL);
            printf("e=%d:%d v=%d:%d\n", rc, rc == 0 ? (st == 1) : 0, rc2, r ? 1 : 0);
            psEccClearKey(&pk.key.ecc); free(sc); free(pt); free(h); free(sig);
        } else if (!strcmp(c, "ei") && g_ntok == 3) {
            const psEccCurve_t *cv = curve_by_id(atoi(g_tok[1]));
            unsigned char *pt; size_t pl = unhex(g_tok[2], &pt);
            unsigned char *pc = malloc(pl ? pl : 1); memcpy(pc, pt, pl);
            psEccKey_t k; memset(&k, 0, sizeof(k));
            if (!cv) { printf("NOCURVE\n"); continue; }
            int rc = psEccX963ImportKey(NULL, pc, (psSize_t) pl, &k, cv);
            printf("i=%d", rc);
            if (rc == 0) { printf(" x="); put_pstm(&k.pubkey.x); printf(" y="); put_pstm(&k.pubkey.y); psEccClearKey(&k); }
            printf("\n"); free(pc); free(pt);
        } else if (!strcmp(c, "es") && g_ntok == 4) {
            const psEccCurve_t *cv = curve_by_id(atoi(g_tok[1]));
            unsigned char *d, *pt; size_t dl = unhex(g_tok[2], &d), pl = unhex(g_tok[3], &pt);
            psEccKey_t pub, priv; memset(&pub, 0, sizeof(pub)); memset(&priv, 0, sizeof(priv));
            if (!cv) { printf("NOCURVE\n"); continue; }
            int rc = psEccX963ImportKey(NULL, pt, (psSize_t) pl, &pub, cv);
            if (rc < 0) { printf("s=import:%d\n", rc); free(d); free(pt); continue; }
            psEccInitKey(NULL, &priv, cv); priv.type = PS_PRIVKEY;
            pstm_init_for_read_unsigned_bin(NULL, &priv.k, (psSize_t) dl); pstm_read_unsigned_bin(&priv.k, d, (psSize_t) dl);
            unsigned char out[256]; psSize_t ol = sizeof(out);
            rc = psEccGenSharedSecret(NULL, &priv, &pub, out, &ol, NULL);
            printf("s=%d:", rc); if (rc == 0) puthex(out, ol); else fputs("-", stdout); printf("\n");
            psEccClearKey(&pub); psEccClearKey(&priv); free(d); free(pt);
        } else if (!strcmp(c, "esign") && g_ntok == 3) {
            psEccKey_t *k = ec_by_bits(atoi(g_tok[1]));
            unsigned char *h; size_t hl = unhex(g_tok[2], &h);
            unsigned char sig[300]; psSize_t sl = sizeof(sig);
            if (!k) { printf("NOKEY\n"); continue; }
            int rc = psEccDsaSign(NULL, k, h, (psSize_t) hl, sig, &sl, 0, NULL);
            printf("g=%d:", rc); if (rc == 0) puthex(sig, sl); else fputs("-", stdout); printf("\n");
            free(h);
        } else if (!strcmp(c, "rsign") && g_ntok == 3) {
            psPubKey_t *k = rsa_by_bits(atoi(g_tok[1]));
            unsigned char *h; size_t hl = unhex(g_tok[2], &h); unsigned char sig[600];
            if (!k) { printf("NOKEY\n"); continue; }
            int rc = privRsaEncryptSignedElement(NULL, &k->key.rsa, h, (psSize_t) hl, sig, k->keysize, NULL);
            printf("g=%d:", rc); if (rc == 0) puthex(sig, k->keysize); else fputs("-", stdout); printf("\n");
            free(h);
        } else if (!strcmp(c, "psign") && g_ntok == 5) {
            psPubKey_t *k = rsa_by_bits(atoi(g_tok[1]));
            unsigned char *salt, *h; size_t sl = unhex(g_tok[3], &salt), hl = unhex(g_tok[4], &h);
            if (!k) { printf("NOKEY\n"); continue; }
            psSignOpts_t so; memset(&so, 0, sizeof(so));
            so.rsaPssHashAlg = atoi(g_tok[2]); so.rsaPssSalt = salt; so.rsaPssSaltLen = (psSize_t) sl;
            unsigned char *out = NULL; psSize_t ol = 0;
            int rc = psRsaPssSignHash(NULL, k, pss_hashlen_sigalg(atoi(g_tok[2])), h, hl, &out, &ol, &so);
            printf("g=%d:", rc); if (rc == 0) { puthex(out, ol); psFree(out, NULL); } else fputs("-", stdout); printf("\n");
            free(salt); free(h);
        } else if (!strcmp(c, "renc") && g_ntok == 3) {
            psPubKey_t *k = rsa_by_bits(atoi(g_tok[1]));
            unsigned char *m; size_t ml = unhex(g_tok[2], &m); unsigned char ct[600];
            if (!k) { printf("NOKEY\n"); continue; }
            int rc = psRsaEncryptPub(NULL, &k->key.rsa, m, (psSize_t) ml, ct, k->keysize, NULL);
            printf("g=%d:", rc); if (rc == 0) puthex(ct, k->keysize); else fputs("-", stdout); printf("\n");
            free(m);
        } else if (!strcmp(c, "dh") && g_ntok == 4) {
            unsigned char *p, *x, *y; size_t pl = unhex(g_tok[1], &p), xl = unhex(g_tok[2], &x), yl = unhex(g_tok[3], &y);
            psDhKey_t priv, pub; memset(&priv, 0, sizeof(priv)); memset(&pub, 0, sizeof(pub));
            int rc = psDhImportPubKey(NULL, y, (psSize_t) yl, &pub);
            if (rc < 0) { printf("h=import:%d\n", rc); continue; }
            psDhImportPrivKey(NULL, x, (psSize_t) xl, &priv);
            unsigned char out[1100]; psSize_t ol = sizeof(out);
            rc = psDhGenSharedSecret(NULL, &priv, &pub, p, (psSize_t) pl, out, &ol, NULL);
            printf("h=%d:", rc); if (rc == 0) puthex(out, ol); else fputs("-", stdout); printf("\n");
            pstm_clear(&priv.priv); pstm_clear(&pub.pub); free(p); free(x); free(y);
        } else if (!strcmp(c, "x25519") && g_ntok == 3) {
            unsigned char *k, *u; size_t kl = unhex(g_tok[1], &k), ul = unhex(g_tok[2], &u); unsigned char out[32];
            if (kl != 32 || ul != 32) { printf("BADLEN\n"); continue; }
            int rc = psDhX25519GenSharedSecret(u, k, out);
            printf("h=%d:", rc); if (rc == 0) puthex(out, 32); else fputs("-", stdout); printf("\n");
            free(k); free(u);
        } else if (!strcmp(c, "edv") && g_ntok == 4) {
            unsigned char *pk, *m, *s; size_t kl = unhex(g_tok[1], &pk), ml = unhex(g_tok[2], &m), sl = unhex(g_tok[3], &s);
            if (kl != 32 || sl != 64) { printf("BADLEN\n"); continue; }
            int rc = psEd25519Verify(s, m, ml, pk);
            printf("e=%d\n", rc == 0 ? 1 : 0);
            free(pk); free(m); free(s);
        } else if (!strcmp(c, "eds") && g_ntok == 4) {
            unsigned char *sk, *pk, *m; size_t kl = unhex(g_tok[1], &sk), pl = unhex(g_tok[2], &pk), ml = unhex(g_tok[3], &m);
            unsigned char sig[64]; psSizeL_t sl = sizeof(sig);
            if (kl != 32 || pl != 32) { printf("BADLEN\n"); continue; }
            int rc = psEd25519Sign(m, ml, sig, &sl, sk, pk);
            printf("g=%d:", rc); if (rc == 0) puthex(sig, 64); else fputs("-", stdout); printf("\n");
            free(sk); free(pk); free(m);
        } else printf("BADCASE\n");
        fflush(stdout);
    }
    return 0;
}
