/* Shared helpers for correspondence harnesses: one case per stdin line, one result line per case. */
#ifndef HCOMMON_H
#define HCOMMON_H
#include <stdio.h>
#include <stdlib.h>
#include <string.h>
#include <stdint.h>
#include <time.h>

#define MAXTOK 4096
static char *g_line = NULL; static size_t g_cap = 0;
static char *g_tok[MAXTOK]; static int g_ntok;

static int next_case(void)
{
    ssize_t n = getline(&g_line, &g_cap, stdin);
    if (n < 0) return 0;
    while (n > 0 && (g_line[n-1] == '\n' || g_line[n-1] == '\r')) g_line[--n] = 0;
    g_ntok = 0;
    char *p = g_line;
    while (*p && g_ntok < MAXTOK) {
        while (*p == ' ') p++;
        if (!*p) break;
        g_tok[g_ntok++] = p;
        while (*p && *p != ' ') p++;
        if (*p) *p++ = 0;
    }
    return 1;
}
static int hexval(int c) { return (c >= '0' && c <= '9') ? c - '0' : (c >= 'a' && c <= 'f') ? c - 'a' + 10 : (c >= 'A' && c <= 'F') ? c - 'A' + 10 : -1; }
/* decode hex ("-" = empty) into a freshly malloc'd buffer with one extra 0 byte; returns length */
static size_t unhex(const char *h, unsigned char **out)
{
    size_t l = (strcmp(h, "-") == 0) ? 0 : strlen(h) / 2;
    unsigned char *b = malloc(l + 1);
    for (size_t i = 0; i < l; i++) b[i] = (unsigned char)(hexval(h[2*i]) * 16 + hexval(h[2*i+1]));
    b[l] = 0; *out = b; return l;
}
static void puthex(const unsigned char *b, size_t l)
{
    if (l == 0) { fputs("-", stdout); return; }
    for (size_t i = 0; i < l; i++) printf("%02x", b[i]);
}

/* ---- pinned calendar: link with -Wl,--wrap=psGetBrokenDownGMTime */
static int g_pin_year = 2020, g_pin_mon = 6, g_pin_day = 15;
#ifdef WRAP_TIME
int __wrap_psGetBrokenDownGMTime(struct tm *t, int offset)
{
    memset(t, 0, sizeof(*t));
    t->tm_year = g_pin_year - 1900; t->tm_mon = g_pin_mon - 1; t->tm_mday = g_pin_day;
    t->tm_hour = 12;
    (void) offset;
    return 0;
}
#endif
#endif
