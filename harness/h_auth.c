/* h_auth: C04 harness over sess.h (two in-memory peers).  One case per input line, one result line per case.

   altkeys <rsa-der-hex> <ec-der-hex>
        private keys that do NOT belong to the certificates in use (same type/size): "wrong key" peers

   V <ver 11|12|13|211 (DTLS 1.0)|212 (DTLS 1.2)> <role c|s> <cbmode> <cbarg> <ca 0|1> <depth> <rc> <n> (<authStatus> <authFailFlags> <selfsigned 0|1>){n}
        verdict substitution: a live handshake is driven through the peer's Certificate message; the call the REAL
        parseCertificate / tls13ValidateCertChain makes to matrixValidateCertsExt is answered by a wrapper that
        (1) extends the parsed chain it was given to n certificates (extra certificates are parsed copies of the
        test CA [self-signed] or of the test leaf [not self-signed]), (2) writes authStatus/authFailFlags of every
        certificate and (3) returns rc.  role = verifying side (c: client checks the server chain; s: server
        checks the client chain, client authentication on).  The rest of the handshake runs on the real credentials.
        result:  ss=<per certificate: 1 iff the library's bytewise subject/issuer comparison calls it self-signed>
                 val=<validator calls> cb=<-|alert passed to the callback> out=<C0|C1|F<alert>|X<reason>>
                 C<anon> = handshake completed on both sides (anon = matrixSslGetAnonStatus of the verifying side)

   L k=v ...   live handshake with real validation.  keys:
        dtls=1 (with ver=12: DTLS 1.2, ver=11: DTLS 1.0; datagram transport of sess.h, HelloVerifyRequest round included)
        ver=12|13  suite=<hex>  key=rsa|ec  cauth=0|1  ccb,scb=<cbmode>  carg,sarg=<cbarg>  cca=0|1|2  sca=0|1|2 (CA loaded: no/yes/wrong)
        cid=0|1 (client loads its identity; default = cauth)  ckeys=none (client passes a key structure with nothing loaded)
        year=<yyyy> (calendar moved AFTER the keys are loaded: peer certificates are then expired)
        name=<expectedName>  schain=1 (server sends leaf + its self-signed root)  depth=<max_verify_depth>
        vflags=<hex> vmflags=<hex> vnametype=<n>  (matrixValidateCertsOptions_t of the client; needs name=)
        sigalgs=<hex16,...> ssigalgs=<hex16,...> (signature algorithms the client / the server enables and offers)
        forcehash=<2|4|5|6>:<side> (the signing side c|s uses SHA-1/256/384/512 in its TLS<=1.2 SKE / CertificateVerify whatever was offered)  rewrite_sa=<hex16> (man in the middle: every entry of the
        ClientHello signature_algorithms list is overwritten with this value on the way to the server)
        pop=<mode>:<side>  mode: flip (signature bytes corrupted) | stale (valid signature by the right key over
        data that is not this handshake's) | replay (signature taken from another handshake of the same peer) |
        wrongkey (signature by a key that is not the certificate's);  side c|s = the SIGNING peer
        kt=wrongkey  (RSA key transport: the server does not hold the certificate's private key)
        omit=cv:<side>      the side c|s sends its Certificate but NO CertificateVerify; everything else is genuine: the message is
                            left out of the sender's transcript hash (so its Finished is the one of a peer that never wrote it), the
                            record is taken off the wire and (TLS 1.3) the sender's record sequence number is not advanced for it
        omit=skesig:s       TLS <= 1.2 server sends ServerKeyExchange WITHOUT the signature (params only), hashed as sent
        preset=nocv         (D)TLS <= 1.2 client, ECDHE suites: right after it has written its (non-empty) Certificate the client forgets that
                            a certificate matched (ssl->sec.certMatch = 0, set from inside the ClientKeyExchange encoder's call of
                            psEccX963ExportKey): the honest encoder skips CertificateVerify, so transcript, Finished and DTLS message_seq
                            are those of a peer that never wrote it
        preset=emptycert    TLS 1.3 client is told it sent an empty Certificate (tls13SentEmptyCertificate) although it sends a real one:
                            the honest encoder then skips CertificateVerify by itself (no wrapper involved)
        resumption offers to a server (see props/C04.py: the requirement "client authentication" must survive them):
        ticket=1            server loads session-ticket keys, client asks for ticket resumption
        offer=fakeid        the client offers a made-up 32-byte session id (+ made-up master secret) the server has never seen
        pre=auth|noauth     a complete earlier handshake on the same library state WITH / WITHOUT client authentication; the client
                            then offers what it kept from it (session id, ticket, TLS 1.3 ticket PSK) in the main handshake
        between=expire|restart|corrupt|foreignkey   what happens between the two: the clock passes every lifetime | the server's
                            session cache is lost (matrixSslClose/Open) | the kept id/ticket/PSK identity is altered | the main server
                            holds another ticket key
        result gains:  pre=<c done>,<s done>,<server validator calls>,<client signatures>  res=<server: resumed (<=1.2) / PSK used (1.3)>
        drop=<dir>:<k> (the k-th record, 0-based, sent in direction c2s|s2c is removed from the wire)
        result:  new=<rc> c=<done>,<err>,<hs>,<cbcalls>:<last alert>,<anon> s=... val=<c calls>:<s calls> sign=<c>:<s>
                 v=<verdict the client's validator gave>;<server's>   verdict = rc/authStatus:authFailFlags/... leaf first

   cbmode: 0 none | 1 returns the alert it was given | 2 returns 0 | 3 returns cbarg | 6 returns 0 iff alert == cbarg else the alert
*/
#include "sess.h"
#include "testkeys/EC/384_EC_CA.h"
#include <stdarg.h>

/* the library itself writes diagnostics to stdout ("Ticket decryption failed", assertions): every result line of this harness is
   assembled in a buffer and emitted at once with the prefix "@ "; props/C04.py keeps only those lines */
static char g_out[16384]; static size_t g_outl;
static int out_printf(const char *fmt, ...)
{
    va_list ap; va_start(ap, fmt);
    int n = vsnprintf(g_out + g_outl, sizeof g_out - g_outl, fmt, ap);
    va_end(ap);
    if (n > 0) { g_outl += (size_t) n; if (g_outl >= sizeof g_out) g_outl = sizeof g_out - 1; }
    return n;
}
#define printf out_printf

/* ---------------------------------------------------------------- callbacks */
typedef struct { int mode, arg, calls, last; } acb_t;
static acb_t g_acb[2];      /* 0 client, 1 server */
static int32_t acb_common(acb_t *a, int32_t alert)
{
    a->calls++; a->last = alert;
    switch (a->mode) {
    case 1: return alert;
    case 2: return 0;
    case 3: return a->arg;
    case 6: return alert == a->arg ? 0 : alert;
    }
    return alert;
}
static int32_t acb_client(ssl_t *ssl, psX509Cert_t *cert, int32_t alert) { (void) ssl; (void) cert; return acb_common(&g_acb[0], alert); }
static int32_t acb_server(ssl_t *ssl, psX509Cert_t *cert, int32_t alert) { (void) ssl; (void) cert; return acb_common(&g_acb[1], alert); }

/* ---------------------------------------------------------------- validator substitution */
#define MAXCH 6
static struct { int active, side, rc, n, st[MAXCH], fl[MAXCH], ss[MAXCH]; } g_sub;
static int g_valcalls[2]; static char g_verdict[2][256]; static char g_sub_ss[MAXCH + 2];
int32 __real_matrixValidateCertsExt(psPool_t *pool, psX509Cert_t *sc, psX509Cert_t *ic, char *name, psX509Cert_t **found,
                                    void *hw, void *pu, const matrixValidateCertsOptions_t *opts);
int32 __wrap_matrixValidateCertsExt(psPool_t *pool, psX509Cert_t *sc, psX509Cert_t *ic, char *name, psX509Cert_t **found,
                                    void *hw, void *pu, const matrixValidateCertsOptions_t *opts)
{
    int side = (g_s.ssl && sc && sc == g_s.ssl->sec.cert) ? 1 : 0;
    g_valcalls[side]++;
    if (!g_sub.active || side != g_sub.side || !sc) {
        int32 r = __real_matrixValidateCertsExt(pool, sc, ic, name, found, hw, pu, opts); int k = 0;
        char *o = g_verdict[side]; o += sprintf(o, "%d", (int) r);        /* the genuine verdict, for the live matrix */
        for (psX509Cert_t *x = sc; x && k < MAXCH; x = x->next, k++) o += sprintf(o, "/%d:%d", (int) x->authStatus, (int) x->authFailFlags);
        return r;
    }
    psX509Cert_t *c = sc;
    for (int i = 0; i < g_sub.n; i++) {
        if (i > 0) {
            if (!c->next) {
                psX509Cert_t *x = NULL; int32 r;
                if (g_sub.ss[i]) r = psX509ParseCert(pool, RSA2048CA, sizeof(RSA2048CA), &x, 0);
                else r = psX509ParseCert(pool, RSA3072, sizeof(RSA3072), &x, 0);
                if (r < 0 || !x) { g_valcalls[side] += 1000; break; }
                c->next = x;
            }
            c = c->next;
        }
        c->authStatus = g_sub.st[i]; c->authFailFlags = g_sub.fl[i];
        /* what the depth rule will see as "self-signed": the library compares the two DN structures bytewise */
        g_sub_ss[i] = memcmp(&c->subject, &c->issuer, sizeof(c->subject)) == 0 ? '1' : '0'; g_sub_ss[i + 1] = 0;
    }
    if (found) *found = NULL;
    return g_sub.rc;
}

/* ---------------------------------------------------------------- defective proofs of possession */
static psPubKey_t g_alt_rsa, g_alt_ec; static int g_have_alt;
static struct { int mode, side; } g_pop;       /* mode 0 none 1 flip 2 stale 3 replay 4 wrongkey */
static int g_signcalls[2];
static unsigned char g_rec_sig[2][1024]; static psSize_t g_rec_siglen[2]; static int g_recording;
int32_t __real_psSign(psPool_t *pool, psPubKey_t *privKey, int32_t sigAlg, const unsigned char *in, psSizeL_t inLen,
                      unsigned char **out, psSize_t *outLen, psSignOpts_t *opts);
static int signer_side(psPubKey_t *k)
{
    for (sslIdentity_t *id = g_c.keys ? g_c.keys->identity : NULL; id; id = id->next) if (&id->privKey == k) return 0;
    return 1;
}
int32_t __wrap_psSign(psPool_t *pool, psPubKey_t *privKey, int32_t sigAlg, const unsigned char *in, psSizeL_t inLen,
                      unsigned char **out, psSize_t *outLen, psSignOpts_t *opts)
{
    int side = signer_side(privKey); int32_t rc;
    /* RSA into a preallocated buffer leaves *outLen at 0: the signature then has the size of the modulus */
#define SIGLEN() ((psSize_t) (*outLen ? *outLen : privKey->keysize))
    g_signcalls[side]++;
    if (g_pop.mode == 0 || side != g_pop.side) {
        rc = __real_psSign(pool, privKey, sigAlg, in, inLen, out, outLen, opts);
        if (g_recording && rc >= 0 && SIGLEN() <= sizeof g_rec_sig[0]) { memcpy(g_rec_sig[side], *out, SIGLEN()); g_rec_siglen[side] = SIGLEN(); }
        return rc;
    }
    if (g_pop.mode == 2) {          /* genuine key, other data */
        unsigned char tmp[512]; if (inLen > sizeof tmp) return PS_FAILURE;
        memcpy(tmp, in, inLen); tmp[0] ^= 0x01; tmp[inLen - 1] ^= 0x80;
        return __real_psSign(pool, privKey, sigAlg, tmp, inLen, out, outLen, opts);
    }
    if (g_pop.mode == 4 && g_have_alt) { /* other key, this handshake's data */
        psPubKey_t *alt = (privKey->type == PS_RSA) ? &g_alt_rsa : &g_alt_ec;
        return __real_psSign(pool, alt, sigAlg, in, inLen, out, outLen, opts);
    }
    rc = __real_psSign(pool, privKey, sigAlg, in, inLen, out, outLen, opts);
    if (rc < 0) return rc;
    if (g_pop.mode == 1) { (*out)[SIGLEN() / 2] ^= 0x04; (*out)[SIGLEN() - 1] ^= 0x01; }
    if (g_pop.mode == 3) {
        /* signature made in ANOTHER handshake by the same key (ECDSA signatures vary in length: take a buffer that fits) */
        if (!g_rec_siglen[side] || (privKey->type == PS_RSA && g_rec_siglen[side] != SIGLEN())) { g_signcalls[side] += 100; return rc; }
        if (g_rec_siglen[side] > SIGLEN()) {
            if (opts && (opts->flags & PS_SIGN_OPTS_USE_PREALLOCATED_OUTBUF)) { g_signcalls[side] += 100; return rc; }
            unsigned char *nb = psMalloc(pool, g_rec_siglen[side]); if (!nb) return PS_MEM_FAIL;
            psFree(*out, pool); *out = nb;
        }
        memcpy(*out, g_rec_sig[side], g_rec_siglen[side]); if (*outLen) *outLen = g_rec_siglen[side];
    }
    return rc;
#undef SIGLEN
}

/* a misbehaving TLS 1.3 signer does not run the library's "verify my own RSA signature" fault check */
int32_t __real_tls13Verify(psPool_t *pool, psPubKey_t *pubKey, uint16_t sigAlg, unsigned char *sig, psSize_t sigLen,
                           const unsigned char *trHash, psSize_t trHashLen, const char *ctx, psSize_t ctxLen);
int32_t __wrap_tls13Verify(psPool_t *pool, psPubKey_t *pubKey, uint16_t sigAlg, unsigned char *sig, psSize_t sigLen,
                           const unsigned char *trHash, psSize_t trHashLen, const char *ctx, psSize_t ctxLen)
{
    if (g_pop.mode) {
        sslKeys_t *k = g_pop.side ? g_s.keys : g_c.keys;
        for (sslIdentity_t *id = k ? k->identity : NULL; id; id = id->next) if (id->cert && &id->cert->publicKey == pubKey) return PS_SUCCESS;
    }
    return __real_tls13Verify(pool, pubKey, sigAlg, sig, sigLen, trHash, trHashLen, ctx, ctxLen);
}

/* a misbehaving signer picks a hash the verifier did not offer (TLS <= 1.2 SKE / CertificateVerify) */
static int g_force_hash, g_force_side, g_forced;      /* 0 none, else 1 sha1, 4 sha256, 5 sha384, 6 sha512 */
static int32_t forced_oid(int isRsa)
{
    switch (g_force_hash) {
    case 2: return isRsa ? OID_SHA1_RSA_SIG : OID_SHA1_ECDSA_SIG;
    case 4: return isRsa ? OID_SHA256_RSA_SIG : OID_SHA256_ECDSA_SIG;
    case 5: return isRsa ? OID_SHA384_RSA_SIG : OID_SHA384_ECDSA_SIG;
    case 6: return isRsa ? OID_SHA512_RSA_SIG : OID_SHA512_ECDSA_SIG;
    }
    return 0;
}
int32_t __real_chooseSkeSigAlg(ssl_t *ssl, sslIdentity_t *id);
int32_t __wrap_chooseSkeSigAlg(ssl_t *ssl, sslIdentity_t *id)
{
    if (g_force_hash && g_force_side == 1 && ssl == g_s.ssl) { g_forced++; return forced_oid(id->privKey.type == PS_RSA); }
    return __real_chooseSkeSigAlg(ssl, id);
}
int32_t __real_chooseSigAlg(psX509Cert_t *cert, psPubKey_t *privKey, uint16_t peerSigAlgs);
int32_t __wrap_chooseSigAlg(psX509Cert_t *cert, psPubKey_t *privKey, uint16_t peerSigAlgs)
{
    if (g_force_hash && g_force_side == 0 && signer_side(privKey) == 0) { g_forced++; return forced_oid(privKey->type == PS_RSA); }
    return __real_chooseSigAlg(cert, privKey, peerSigAlgs);
}

/* ---------------------------------------------------------------- a peer that OMITS its proof of possession */
static struct { int mode, side, have_mark, hashskips, dropped; unsigned char mark[16]; } g_omit;   /* mode 1 cv, 2 skesig */
int32_t __real_sslUpdateHSHash(ssl_t *ssl, const unsigned char *in, psSize_t len);
int32_t __wrap_sslUpdateHSHash(ssl_t *ssl, const unsigned char *in, psSize_t len)
{
    int side = (ssl == g_s.ssl) ? 1 : 0;
    if (g_omit.mode && side == g_omit.side && len >= 4 && (ssl == g_s.ssl || ssl == g_c.ssl)) {
        int receiving_cv = ACTV_VER(ssl, v_tls_1_3_any) && ssl->hsState == SSL_HS_TLS_1_3_WAIT_CV;
        if (g_omit.mode == 1 && in[0] == SSL_HS_CERTIFICATE_VERIFY && !receiving_cv) { g_omit.hashskips++; return PS_SUCCESS; }
        size_t hh = (ssl->flags & SSL_FLAGS_DTLS) ? 12 : 4;               /* handshake header: DTLS adds message_seq, fragment offset / length */
        if (g_omit.mode == 2 && in[0] == SSL_HS_SERVER_KEY_EXCHANGE && len > hh + 4 && in[hh] == 3 && (size_t) (hh + 4 + in[hh + 3]) < len) {
            unsigned char tmp[600]; size_t pl = 4 + (size_t) in[hh + 3];      /* curve_type, named_curve, point */
            if (hh + pl <= sizeof tmp) {
                memcpy(tmp, in, hh); tmp[1] = 0; tmp[2] = (unsigned char) (pl >> 8); tmp[3] = (unsigned char) pl;
                if (hh == 12) { tmp[6] = tmp[7] = tmp[8] = 0; tmp[9] = 0; tmp[10] = tmp[2]; tmp[11] = tmp[3]; }
                memcpy(tmp + hh, in + hh, pl);
                g_omit.hashskips++; return __real_sslUpdateHSHash(ssl, tmp, (psSize_t) (hh + pl));
            }
        }
    }
    return __real_sslUpdateHSHash(ssl, in, len);
}
int32_t __real_tls13TranscriptHashUpdate(ssl_t *ssl, const unsigned char *in, psSize_t len);
int32_t __wrap_tls13TranscriptHashUpdate(ssl_t *ssl, const unsigned char *in, psSize_t len)
{
    int side = (ssl == g_s.ssl) ? 1 : 0;
    if (g_omit.mode == 1 && side == g_omit.side && len >= 4 && (ssl == g_s.ssl || ssl == g_c.ssl) &&
        in[0] == SSL_HS_CERTIFICATE_VERIFY && ssl->hsState != SSL_HS_TLS_1_3_WAIT_CV) { g_omit.hashskips++; return MATRIXSSL_SUCCESS; }
    return __real_tls13TranscriptHashUpdate(ssl, in, len);
}
int32_t __real_tls13EncryptMessage(ssl_t *ssl, flightEncode_t *msg, unsigned char **end);
int32_t __wrap_tls13EncryptMessage(ssl_t *ssl, flightEncode_t *msg, unsigned char **end)
{
    int side = (ssl == g_s.ssl) ? 1 : 0;
    if (g_omit.mode == 1 && side == g_omit.side && msg->hsMsg == SSL_HS_CERTIFICATE_VERIFY) {
        unsigned char seq[8]; memcpy(seq, ssl->sec.seq, 8);
        int32_t rc = __real_tls13EncryptMessage(ssl, msg, end);
        memcpy(ssl->sec.seq, seq, 8);                    /* the record will never be sent: the next one takes its number */
        memcpy(g_omit.mark, msg->start, sizeof g_omit.mark); g_omit.have_mark = 1;
        return rc;
    }
    return __real_tls13EncryptMessage(ssl, msg, end);
}
/* wire side of the omission: called for the head record of a queue before it is delivered; 1 = record removed */
static int omit_wire(int dir)
{
    queue_t *q = dir ? &g_s2c : &g_c2s; size_t l = q_reclen(q); unsigned char *p = q->b;
    size_t rh = (size_t) SESS_RHL, hh = g_sdtls ? 12 : 4;
    if (!g_omit.mode || dir != g_omit.side || l < rh + hh) return 0;
    int sealed = q->m[q->mh % MQ].sealed;
    if (g_omit.mode == 1) {
        int hit = (g_omit.have_mark && l >= rh + sizeof g_omit.mark && !memcmp(p + rh, g_omit.mark, sizeof g_omit.mark))     /* TLS 1.3 */
                  || (!g_sdtls && p[0] == 22 && !sealed && p[rh] == SSL_HS_CERTIFICATE_VERIFY);                               /* TLS <= 1.2 */
        if (hit) { q_pop(q, l); q_meta_pop(q); g_omit.dropped++; return 1; }
    }
    if (g_omit.mode == 2 && p[0] == 22 && !sealed) {
        size_t o = rh;
        while (o + hh <= l) {
            size_t ml = ((size_t) p[o + 1] << 16) | ((size_t) p[o + 2] << 8) | p[o + 3];
            if (g_sdtls) ml = ((size_t) p[o + 9] << 16) | ((size_t) p[o + 10] << 8) | p[o + 11];      /* this fragment */
            if (o + hh + ml > l) break;
            if (p[o] == SSL_HS_SERVER_KEY_EXCHANGE && ml > 4 && p[o + hh] == 3 && 4 + (size_t) p[o + hh + 3] < ml &&
                (!g_sdtls || (p[o + 6] == 0 && p[o + 7] == 0 && p[o + 8] == 0 && p[o + 1] == p[o + 9] && p[o + 2] == p[o + 10] && p[o + 3] == p[o + 11]))) {
                size_t pl = 4 + (size_t) p[o + hh + 3], cut = ml - pl;
                memmove(p + o + hh + pl, p + o + hh + ml, q->len - (o + hh + ml)); q->len -= cut;
                p[o + 1] = 0; p[o + 2] = (unsigned char) (pl >> 8); p[o + 3] = (unsigned char) pl;
                if (g_sdtls) { p[o + 9] = 0; p[o + 10] = p[o + 2]; p[o + 11] = p[o + 3]; }
                size_t rl = l - rh - cut; p[rh - 2] = (unsigned char) (rl >> 8); p[rh - 1] = (unsigned char) rl;
                g_omit.dropped++; return 0;
            }
            o += hh + ml;
        }
    }
    return 0;
}

/* preset=nocv: see the header comment */
static int g_preset_nocv, g_preset_nocv_hits;
int32_t __real_psEccX963ExportKey(psPool_t *pool, const psEccKey_t *key, unsigned char *out, psSize_t *outlen);
int32_t __wrap_psEccX963ExportKey(psPool_t *pool, const psEccKey_t *key, unsigned char *out, psSize_t *outlen)
{
    if (g_preset_nocv && g_c.ssl && key && key == g_c.ssl->sec.eccKeyPriv && g_c.ssl->sec.certMatch > 0) { g_c.ssl->sec.certMatch = 0; g_preset_nocv_hits++; }
    return __real_psEccX963ExportKey(pool, key, out, outlen);
}

static int g_kt_mode;   /* 1: server decrypts the premaster with a key that is not the certificate's */
int32_t __real_psRsaDecryptPriv(psPool_t *pool, psRsaKey_t *key, unsigned char *in, psSize_t inlen, unsigned char *out, psSize_t outlen, void *data);
int32_t __wrap_psRsaDecryptPriv(psPool_t *pool, psRsaKey_t *key, unsigned char *in, psSize_t inlen, unsigned char *out, psSize_t outlen, void *data)
{
    if (g_kt_mode == 1 && g_have_alt) return __real_psRsaDecryptPriv(pool, &g_alt_rsa.key.rsa, in, inlen, out, outlen, data);
    return __real_psRsaDecryptPriv(pool, key, in, inlen, out, outlen, data);
}

/* ---------------------------------------------------------------- session construction (variant of sess_new with more knobs) */
typedef struct {
    int ver, key, cauth, cca, sca, cid, ckeys_none, schain, year, depth, vnametype, has_vopts;
    unsigned long vflags, vmflags;
    psCipher16_t suites[8]; int nsuites;
    uint16_t sigalgs[16]; int nsigalgs; uint16_t ssigalgs[16]; int nssigalgs;
    const char *name; uint64_t seed;
    int keep, ticket, tkey, fakeid, dtls;
} acfg_t;

static int load_keys(sslKeys_t *k, int key, int with_id, int ca, int chain)
{
    const unsigned char *cert = NULL, *priv = NULL, *cab = NULL; int32 cl = 0, pl = 0, cal = 0; unsigned char *cat = NULL; int rc;
    if (key == 0) {
        if (with_id) { cert = RSA2048; cl = sizeof(RSA2048); priv = RSA2048KEY; pl = sizeof(RSA2048KEY); }
        if (chain && with_id) { cat = malloc(sizeof(RSA2048) + sizeof(RSA2048CA)); memcpy(cat, RSA2048, sizeof(RSA2048)); memcpy(cat + sizeof(RSA2048), RSA2048CA, sizeof(RSA2048CA)); cert = cat; cl = sizeof(RSA2048) + sizeof(RSA2048CA); }
        if (ca == 1) { cab = RSA2048CA; cal = sizeof(RSA2048CA); } else if (ca == 2) { cab = RSA3072CA; cal = sizeof(RSA3072CA); }
        if (!with_id && !cab) { free(cat); return 0; }      /* nothing to load: leave the key structure empty */
        rc = matrixSslLoadRsaKeysMem(k, cert, cl, priv, pl, cab, cal);
    } else {
        if (with_id) { cert = EC256; cl = sizeof(EC256); priv = EC256KEY; pl = sizeof(EC256KEY); }
        if (chain && with_id) { cat = malloc(sizeof(EC256) + sizeof(EC256CA)); memcpy(cat, EC256, sizeof(EC256)); memcpy(cat + sizeof(EC256), EC256CA, sizeof(EC256CA)); cert = cat; cl = sizeof(EC256) + sizeof(EC256CA); }
        if (ca == 1) { cab = EC256CA; cal = sizeof(EC256CA); } else if (ca == 2) { cab = EC384CA; cal = sizeof(EC384CA); }
        if (!with_id && !cab) { free(cat); return 0; }
        rc = matrixSslLoadEcKeysMem(k, cert, cl, priv, pl, cab, cal);
    }
    free(cat);
    return rc;
}

static int auth_new(acfg_t *c)
{
    int32 rc; sslSessOpts_t so; psProtocolVersion_t v[1];
    peer_free(&g_c); peer_free(&g_s);
    memset(&g_c, 0, sizeof g_c); memset(&g_s, 0, sizeof g_s); g_s.is_server = 1;
    memset(g_ilog, 0, sizeof g_ilog);
    if (g_skeys_persist) { matrixSslDeleteKeys(g_skeys_persist); g_skeys_persist = NULL; }
    g_sdtls = c->dtls ? 1 : 0;
    if (!c->keep) {
        if (g_saved_sid) { matrixSslDeleteSessionId(g_saved_sid); g_saved_sid = NULL; }
        if (c->dtls) ent_seed(c->seed ^ 0x44544c53);      /* matrixSslOpen draws the DTLS cookie secret */
        matrixSslClose(); if (matrixSslOpen() < 0) return -9;
        g_vtime = 1592222400;
    }
    q_init(&g_c2s); q_init(&g_s2c);
    ent_seed(c->seed);
    g_pin_year = 2020;                        /* credentials are loaded while they are valid */
    g_acb[0].calls = g_acb[1].calls = 0; g_acb[0].last = g_acb[1].last = -1;
    g_valcalls[0] = g_valcalls[1] = 0; g_signcalls[0] = g_signcalls[1] = 0; strcpy(g_verdict[0], "-"); strcpy(g_verdict[1], "-");
    v[0] = c->ver == 13 ? v_tls_1_3 : (c->ver == 11 ? v_tls_1_1 : v_tls_1_2);
    if (matrixSslNewKeys(&g_s.keys, NULL) < 0) return -1;
    if ((rc = load_keys(g_s.keys, c->key, 1, c->cauth ? c->sca : 0, c->schain)) < 0) return rc - 1000;
    if (c->ticket) {
        static const unsigned char tn[2][16] = { "verif-ticketkey", "other-ticketkey" }; unsigned char sk[32], hk[32];
        memset(sk, c->tkey ? 0x3c : 0x5a, 32); memset(hk, c->tkey ? 0xc3 : 0xa5, 32);
        if (matrixSslLoadSessionTicketKeys(g_s.keys, tn[c->tkey ? 1 : 0], sk, 32, hk, 32) < 0) return -1500;
    }
    if (matrixSslNewKeys(&g_c.keys, NULL) < 0) return -2;
    if (!c->ckeys_none && (rc = load_keys(g_c.keys, c->key, c->cid, c->cca, 0)) < 0) return rc - 2000;
    memset(&so, 0, sizeof so);
    int dminor[1] = { c->ver == 11 ? 2 : 3 };
    if (c->dtls) so.versionFlag = dtls_version_flag(dminor, 1);
    else if ((rc = matrixSslSessOptsSetServerTlsVersions(&so, v, 1)) < 0) return rc - 3000;
    if (c->nssigalgs && (rc = matrixSslSessOptsSetSigAlgs(&so, c->ssigalgs, (psSize_t) c->nssigalgs)) < 0) return rc - 3500;
    rc = matrixSslNewServerSession(&g_s.ssl, g_s.keys, (c->cauth && g_acb[1].mode) ? acb_server : NULL, &so);
    if (rc < 0) return rc - 4000;
    if (c->cauth && !g_acb[1].mode)           /* client authentication without an application callback: public API */
        matrixSslSetSessionOption(g_s.ssl, SSL_OPTION_ENABLE_CLIENT_AUTH, NULL);
    if (c->depth && c->cauth) g_s.ssl->validateCertsOpts.max_verify_depth = c->depth;
    memset(&so, 0, sizeof so);
    if (c->dtls) so.versionFlag = dtls_version_flag(dminor, 1);
    else if ((rc = matrixSslSessOptsSetClientTlsVersions(&so, v, 1)) < 0) return rc - 5000;
    if (c->nsigalgs && (rc = matrixSslSessOptsSetSigAlgs(&so, c->sigalgs, (psSize_t) c->nsigalgs)) < 0) return rc - 5500;
    if (c->depth) so.validateCertsOpts.max_verify_depth = c->depth;
    if (c->has_vopts) { so.validateCertsOpts.flags = c->vflags; so.validateCertsOpts.mFlags = (uint32_t) c->vmflags; so.validateCertsOpts.nameType = c->vnametype; }
    if (c->ticket) so.ticketResumption = 1;
    if (!(c->keep && g_saved_sid)) matrixSslNewSessionId(&g_saved_sid, NULL);
    g_c.sid = g_saved_sid;
    if (c->fakeid) {                           /* what a client could have kept from a connection this server never had */
        g_saved_sid->idLen = SSL_MAX_SESSION_ID_SIZE;
        for (int i = 0; i < SSL_MAX_SESSION_ID_SIZE; i++) g_saved_sid->id[i] = (unsigned char) (0xA0 + i);
        memset(g_saved_sid->masterSecret, 0x5A, SSL_HS_MASTER_SIZE);
        g_saved_sid->cipherId = c->nsuites ? c->suites[0] : 0xc02f;
    }
    rc = matrixSslNewClientSession(&g_c.ssl, g_c.keys, g_c.sid, c->nsuites ? c->suites : NULL, (uint8_t) c->nsuites,
                                   g_acb[0].mode ? acb_client : NULL, c->name, NULL, NULL, &so);
    if (rc != MATRIXSSL_REQUEST_SEND) return rc - 6000;
    g_ssl_of[0] = g_c.ssl; g_ssl_of[1] = g_s.ssl;
    g_pin_year = c->year ? c->year : 2020;    /* only what the PEER sends is judged at the moved date */
    return 0;
}

/* man in the middle: overwrite every entry of the signature_algorithms list of the ClientHello at the head of c2s */
static int rewrite_sigalgs(const uint16_t *vals, int nv)
{
    queue_t *q = &g_c2s; size_t l = q_reclen(q); unsigned char *p = q->b;
    if (!l || p[0] != 22 || p[5] != 1) return -1;
    size_t o = 5 + 4 + 2 + 32; if (o >= l) return -2;
    o += 1 + p[o]; if (o + 2 > l) return -2;
    o += 2 + ((p[o] << 8) | p[o + 1]); if (o + 1 > l) return -2;
    o += 1 + p[o]; if (o + 2 > l) return -2;
    size_t el = (size_t) ((p[o] << 8) | p[o + 1]); o += 2; size_t end = o + el; if (end > l) return -2;
    while (o + 4 <= end) {
        int t = (p[o] << 8) | p[o + 1]; size_t bl = (size_t) ((p[o + 2] << 8) | p[o + 3]); o += 4;
        if (t == 13 && bl >= 2) { size_t ll = (size_t) ((p[o] << 8) | p[o + 1]); int k = 0;
            for (size_t i = 0; i + 1 < ll && o + 2 + i + 1 < end; i += 2) { uint16_t val = vals[k % nv]; p[o + 2 + i] = (unsigned char) (val >> 8); p[o + 2 + i + 1] = (unsigned char) val; k++; }
            return k; }
        o += bl;
    }
    return 0;
}

static int pump_drop(int dir, int k)
{
    /* like pump(1), but the k-th record ever queued in direction dir is removed instead of delivered */
    int n = 0, moved = 1, guard = 0, seen[2] = { 0, 0 }; int saveq = g_quiet; g_quiet = 1;
    flush_out(&g_c); flush_out(&g_s);
    while (moved && guard++ < 1000) {
        moved = 0;
        for (int d = 0; d < 2; d++) {
            queue_t *q = d ? &g_s2c : &g_c2s;
            while (q_reclen(q)) {
                if (d == dir && seen[d] == k) { size_t l = q_reclen(q); q_pop(q, l); q_meta_pop(q); }
                else if (!omit_wire(d)) deliver_one(d, 0);
                seen[d]++; n++; moved = 1;
            }
        }
    }
    g_quiet = saveq;
    return n;
}

static void side_line(const char *tag, peer_t *p, int w)
{
    int32 anon = 0;
    if (!p->ssl) { printf(" %s=nil", tag); return; }
    matrixSslGetAnonStatus(p->ssl, &anon);
    printf(" %s=%d,%d,%d,%d:%d,%d", tag, matrixSslHandshakeIsComplete(p->ssl) ? 1 : 0, (int) p->ssl->err, (int) p->ssl->hsState,
           g_acb[w].calls, g_acb[w].last, (int) anon);
}

static void parse_suites(acfg_t *c, char *v) { while (*v && c->nsuites < 8) { c->suites[c->nsuites++] = (psCipher16_t) strtol(v, &v, 16); if (*v == ',') v++; } }

static void do_live(char **a, int n)
{
    acfg_t c; memset(&c, 0, sizeof c); c.ver = 12; c.cca = 1; c.sca = 1; c.seed = 1; c.cid = -1;
    int dropdir = -1, dropk = 0; uint16_t rw[16]; int nrw = 0; int preset_empty = 0; int pre = 0, between = 0; char prebuf[64] = "";
    g_preset_nocv = 0; g_preset_nocv_hits = 0;
    memset(&g_omit, 0, sizeof g_omit);
    memset(&g_pop, 0, sizeof g_pop); g_kt_mode = 0; g_sub.active = 0; memset(g_acb, 0, sizeof g_acb); g_force_hash = 0; g_forced = 0;
    for (int i = 0; i < n; i++) {
        char *eq = strchr(a[i], '='); if (!eq) continue; *eq = 0; char *v = eq + 1;
        if (!strcmp(a[i], "ver")) c.ver = atoi(v);
        else if (!strcmp(a[i], "suite")) parse_suites(&c, v);
        else if (!strcmp(a[i], "key")) c.key = !strcmp(v, "ec");
        else if (!strcmp(a[i], "cauth")) c.cauth = atoi(v);
        else if (!strcmp(a[i], "ccb")) g_acb[0].mode = atoi(v);
        else if (!strcmp(a[i], "scb")) g_acb[1].mode = atoi(v);
        else if (!strcmp(a[i], "carg")) g_acb[0].arg = atoi(v);
        else if (!strcmp(a[i], "sarg")) g_acb[1].arg = atoi(v);
        else if (!strcmp(a[i], "cca")) c.cca = atoi(v);
        else if (!strcmp(a[i], "sca")) c.sca = atoi(v);
        else if (!strcmp(a[i], "cid")) c.cid = atoi(v);
        else if (!strcmp(a[i], "ckeys")) c.ckeys_none = !strcmp(v, "none");
        else if (!strcmp(a[i], "year")) c.year = atoi(v);
        else if (!strcmp(a[i], "name")) c.name = v;
        else if (!strcmp(a[i], "schain")) c.schain = atoi(v);
        else if (!strcmp(a[i], "depth")) c.depth = atoi(v);
        else if (!strcmp(a[i], "vflags")) { c.vflags = strtoul(v, NULL, 16); c.has_vopts = 1; }
        else if (!strcmp(a[i], "vmflags")) { c.vmflags = strtoul(v, NULL, 16); c.has_vopts = 1; }
        else if (!strcmp(a[i], "vnametype")) { c.vnametype = atoi(v); c.has_vopts = 1; }
        else if (!strcmp(a[i], "seed")) c.seed = strtoull(v, NULL, 10);
        else if (!strcmp(a[i], "sigalgs")) { while (*v && c.nsigalgs < 16) { c.sigalgs[c.nsigalgs++] = (uint16_t) strtol(v, &v, 16); if (*v == ',') v++; } }
        else if (!strcmp(a[i], "ssigalgs")) { while (*v && c.nssigalgs < 16) { c.ssigalgs[c.nssigalgs++] = (uint16_t) strtol(v, &v, 16); if (*v == ',') v++; } }
        else if (!strcmp(a[i], "forcehash")) { char *col = strchr(v, ':'); g_force_hash = atoi(v); g_force_side = (col && col[1] == 's') ? 1 : 0; }
        else if (!strcmp(a[i], "rewrite_sa")) { while (*v && nrw < 16) { rw[nrw++] = (uint16_t) strtol(v, &v, 16); if (*v == ',') v++; } }
        else if (!strcmp(a[i], "ticket")) c.ticket = atoi(v);
        else if (!strcmp(a[i], "offer")) c.fakeid = !strcmp(v, "fakeid");
        else if (!strcmp(a[i], "pre")) pre = !strcmp(v, "auth") ? 2 : 1;
        else if (!strcmp(a[i], "between")) between = !strcmp(v, "expire") ? 1 : !strcmp(v, "restart") ? 2 : !strcmp(v, "corrupt") ? 3 : !strcmp(v, "foreignkey") ? 4 : 0;
        else if (!strcmp(a[i], "kt")) g_kt_mode = !strcmp(v, "wrongkey");
        else if (!strcmp(a[i], "omit")) { char *col = strchr(v, ':'); if (col) { *col = 0; g_omit.side = col[1] == 's'; } g_omit.mode = !strcmp(v, "cv") ? 1 : !strcmp(v, "skesig") ? 2 : 0; }
        else if (!strcmp(a[i], "preset")) { preset_empty = !strcmp(v, "emptycert"); g_preset_nocv = !strcmp(v, "nocv"); }
        else if (!strcmp(a[i], "dtls")) c.dtls = atoi(v);
        else if (!strcmp(a[i], "drop")) { dropdir = (v[0] == 's') ? 1 : 0; char *col = strchr(v, ':'); dropk = col ? atoi(col + 1) : 0; }
        else if (!strcmp(a[i], "pop")) {
            char *col = strchr(v, ':'); if (col) { *col = 0; g_pop.side = col[1] == 's'; }
            g_pop.mode = !strcmp(v, "flip") ? 1 : !strcmp(v, "stale") ? 2 : !strcmp(v, "replay") ? 3 : !strcmp(v, "wrongkey") ? 4 : 0;
        }
    }
    if (c.cid < 0) c.cid = c.cauth;
    if (g_pop.mode == 3) {      /* record the signature the same peer makes in another handshake (other randoms) */
        int m = g_pop.mode; acb_t sv[2]; memcpy(sv, g_acb, sizeof sv); acfg_t c2 = c; c2.seed = c.seed + 1000; c2.year = 0;
        g_pop.mode = 0; g_recording = 1; g_rec_siglen[0] = g_rec_siglen[1] = 0;
        if (auth_new(&c2) == 0) { g_quiet = 1; flush_out(&g_c); g_quiet = 0; pump(1); }
        g_recording = 0; g_pop.mode = m; memcpy(g_acb, sv, sizeof sv);
    }
    if (pre) {                  /* the earlier connection the client keeps its resumption material from */
        acb_t sv[2]; memcpy(sv, g_acb, sizeof sv); acfg_t c0 = c; c0.cauth = (pre == 2); c0.cid = (pre == 2); c0.year = 0; c0.keep = 0; c0.fakeid = 0; c0.seed = c.seed + 500;
        memset(g_acb, 0, sizeof g_acb); g_acb[1].mode = (pre == 2) ? 1 : 0;
        int r0 = auth_new(&c0);
        if (r0 == 0) { g_quiet = 1; flush_out(&g_c); g_quiet = 0; pump(1); }
        snprintf(prebuf, sizeof prebuf, " pre=%d,%d,%d,%d", r0 == 0 && g_c.ssl ? matrixSslHandshakeIsComplete(g_c.ssl) : -1,
                 r0 == 0 && g_s.ssl ? matrixSslHandshakeIsComplete(g_s.ssl) : -1, g_valcalls[1], g_signcalls[0]);
        peer_free(&g_c); peer_free(&g_s);          /* both connections are closed: cache entries released, the client keeps g_saved_sid */
        memcpy(g_acb, sv, sizeof sv); c.keep = 1;
        if (between == 1) g_vtime += 3 * 86400;
        if (between == 2) { matrixSslClose(); if (matrixSslOpen() < 0) { printf("new=-9"); return; } }
        if (between == 3 && g_saved_sid) {
            g_saved_sid->id[5] ^= 0x01;
            if (g_saved_sid->sessionTicket && g_saved_sid->sessionTicketLen > 40) { g_saved_sid->sessionTicket[g_saved_sid->sessionTicketLen / 2] ^= 0x10; g_saved_sid->sessionTicket[g_saved_sid->sessionTicketLen - 1] ^= 0x01; }
            for (psTls13Psk_t *k = g_saved_sid->psk; k; k = k->next) if (k->pskId && k->pskIdLen > 8) { k->pskId[k->pskIdLen / 2] ^= 0x10; k->pskId[k->pskIdLen - 1] ^= 0x01; }
        }
        if (between == 4) c.tkey = 1;
    }
    int rc = auth_new(&c);
    printf("new=%d", rc);
    if (rc == 0) {
        g_quiet = 1; flush_out(&g_c); g_quiet = 0;
        if (nrw) printf(" rewrite=%d", rewrite_sigalgs(rw, nrw));
        if (preset_empty) g_c.ssl->tls13SentEmptyCertificate = PS_TRUE;
        pump_drop(dropdir, dropk);
    }
    side_line("c", &g_c, 0); side_line("s", &g_s, 1);
    printf(" val=%d:%d sign=%d:%d v=%s;%s", g_valcalls[0], g_valcalls[1], g_signcalls[0], g_signcalls[1], g_verdict[0], g_verdict[1]);
    if (pre || c.fakeid) printf("%s res=%d", prebuf, g_s.ssl ? (ACTV_VER(g_s.ssl, v_tls_1_3_any) ? (g_s.ssl->sec.tls13UsingPsk ? 1 : 0) : ((g_s.ssl->flags & SSL_FLAGS_RESUMED) ? 1 : 0)) : -1);
    if (g_force_hash) printf(" forced=%d", g_forced);
    if (g_omit.mode) printf(" omit=%d:%d", g_omit.hashskips, g_omit.dropped);
    if (g_preset_nocv) printf(" nocv=%d", g_preset_nocv_hits);
    g_preset_nocv = 0;
    memset(&g_omit, 0, sizeof g_omit);
    g_force_hash = 0; g_pin_year = 2020; memset(&g_pop, 0, sizeof g_pop); g_kt_mode = 0;
}

static void do_verdict(char **a, int n)
{
    if (n < 8) { printf("X:args"); return; }
    acfg_t c; memset(&c, 0, sizeof c); c.seed = 1; c.sca = 1; c.cca = 1;
    memset(&g_pop, 0, sizeof g_pop); g_kt_mode = 0; memset(g_acb, 0, sizeof g_acb); memset(&g_sub, 0, sizeof g_sub); memset(&g_omit, 0, sizeof g_omit);
    c.ver = atoi(a[0]); int role = a[1][0] == 's';
    if (c.ver > 200) { c.dtls = 1; c.ver -= 200; }          /* 212 = DTLS 1.2, 211 = DTLS 1.0 */
    int cbmode = atoi(a[2]), cbarg = atoi(a[3]), ca = atoi(a[4]);
    c.depth = atoi(a[5]); g_sub.rc = atoi(a[6]); g_sub.n = atoi(a[7]);
    if (g_sub.n < 1 || g_sub.n > MAXCH || n < 8 + 3 * g_sub.n) { printf("X:chain"); return; }
    for (int i = 0; i < g_sub.n; i++) { g_sub.st[i] = atoi(a[8 + 3 * i]); g_sub.fl[i] = atoi(a[9 + 3 * i]); g_sub.ss[i] = atoi(a[10 + 3 * i]); }
    g_sub.side = role; g_sub_ss[0] = 0;
    if (role) { c.cauth = 1; c.sca = ca; g_acb[1].mode = cbmode; g_acb[1].arg = cbarg; c.cid = 1; }
    else { c.cca = ca; g_acb[0].mode = cbmode; g_acb[0].arg = cbarg; c.cid = ca ? 0 : 1; }   /* a CA-less client must load something */
    if (c.ver == 12) { c.suites[0] = 0xc02f; c.nsuites = 1; }
    if (c.ver == 11) { c.suites[0] = 0xc013; c.nsuites = 1; }
    int rc = auth_new(&c);
    if (rc != 0) { printf("ss=- val=0 cb=- out=Xnew%d", rc); return; }
    /* when the verifying side is the server and depth was requested, only the server's option is meant */
    if (role) g_c.ssl->validateCertsOpts.max_verify_depth = 0;
    g_sub.active = 1;
    g_quiet = 1; flush_out(&g_c); g_quiet = 0; pump(1);
    g_sub.active = 0;
    peer_t *p = role ? &g_s : &g_c, *o = role ? &g_c : &g_s; acb_t *cb = &g_acb[role];
    int32 anon = 0; matrixSslGetAnonStatus(p->ssl, &anon);
    printf("ss=%s val=%d cb=", g_sub_ss[0] ? g_sub_ss : "-", g_valcalls[role]);
    if (cb->calls) printf("%d", cb->last); else printf("-");
    if (p->ssl->err != SSL_ALERT_NONE) printf(" out=F%d", (int) p->ssl->err);
    else if (matrixSslHandshakeIsComplete(p->ssl) && matrixSslHandshakeIsComplete(o->ssl)) printf(" out=C%d", (int) anon);
    else printf(" out=Xstuck:%d:%d:%d", (int) p->ssl->hsState, (int) o->ssl->hsState, (int) o->ssl->err);
}

int main(void)
{
    if (matrixSslOpen() < 0) { fputs("@ INITFAIL\n", stdout); return 2; }
    while (next_case()) {
        if (g_ntok >= 3 && !strcmp(g_tok[0], "altkeys")) {
            unsigned char *d; size_t l; int r1, r2;
            l = unhex(g_tok[1], &d); r1 = psParseUnknownPrivKeyMem(NULL, d, (int32) l, NULL, &g_alt_rsa); free(d);
            l = unhex(g_tok[2], &d); r2 = psParseUnknownPrivKeyMem(NULL, d, (int32) l, NULL, &g_alt_ec); free(d);
            g_have_alt = (r1 >= 0 && r2 >= 0);
            printf("altkeys:%d:%d", r1, r2);
        }
        else if (g_ntok >= 1 && !strcmp(g_tok[0], "V")) do_verdict(g_tok + 1, g_ntok - 1);
        else if (g_ntok >= 1 && !strcmp(g_tok[0], "L")) do_live(g_tok + 1, g_ntok - 1);
        else printf("?");
        fputs("@ ", stdout); fputs(g_out, stdout); fputc('\n', stdout); fflush(stdout); g_outl = 0; g_out[0] = 0;
    }
    return 0;
}
