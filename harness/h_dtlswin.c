/* C16 harness: DTLS replay window / epoch gate / live replay.
   One case per stdin line, one canonical result line per case.

   w <last12hex> <bitmaphex> <exp> <e:seq12hex> ...
        direct calls of dtlsChkReplayWindow (matrixssl/dtls.c) on a real DTLS ssl_t whose
        lastRsn / dtlsBitmap / expectedEpoch are set to the given initial state; for every record
        ssl->rec.epoch := e and the function is called with the 6-byte sequence number.
        -> "<0|1>... last=<12hex> bm=<hex>"
   g <S|C> <last12hex> <bitmaphex> <exp> <type:hs:pccs:ade:e:seq12hex> ...
        every record goes through matrixSslDecode() (record-header path of sslDecode.c) as one
        datagram holding one record, on an established DTLS 1.2 session whose hsState / parsedCCS /
        appDataExch are set per record.  ssl->decrypt is replaced by a spy that notes that the
        record got past the epoch gate and the replay window (= "accepted") and fails, so nothing
        behind the gate runs.  Wrapped dtlsChkReplayWindow notes whether the window was consulted.
        -> "<a|d><w|n><rc class>... exp=<n> last=<12hex> bm=<hex>"
            rc class: S success(0), R DTLS_RETRANSMIT, U alert unexpected_message, D spy reached, ? other
   live <pmtu> <fates|-> [r<i>@<j> | d<i>@<j>] ...
        in-memory DTLS 1.2 client/server; the k-th emitted datagram gets fate fates[k]
        ('.' deliver, 'x' drop, '2' deliver twice, 'h' hold until the next datagram to that peer
        was delivered); after the handshake the client sends A1 A2 A3 and the server B1 B2 (one
        datagram each).  r<i>@<j>: captured record i is delivered once more, alone in a datagram,
        right after emitted datagram j was handled; d<i>@<j>: same for whole datagram i.
        <pmtu> may be <pmtu>/<suite hex>[/<mode>] (default suite c02f); mode letters: r = resumed handshake
        (a clean full handshake fills a sslSessionId_t first, the scheduled handshake then resumes it),
        a = client authentication (server has a certificate callback, client presents the RSA-2048
        identity); a peer whose API call fails is closed
        (dead), as an application would do; a peer with nothing pending that received nothing since
        its last turn takes a timeout (flight resend through matrixDtlsGetOutdata).
        -> "hs=<S><C> rounds=<n> S=<app data delivered to server> C=<...> err=<S><C> dead=<S><C> ndg=<n>
            nrec=<n> injacc=<n> injchg=<n>"   (injacc: injected records the replay window accepted;
            injchg: injected datagrams after which hsState/error flags/delivered data differ)
            why=<peer><api><rc>/<ssl->err> for the first failing API call (G GetOutdata, R ReceivedData,
            S SentData; "-" if none), res=<S><C> SSL_FLAGS_RESUMED, ca=<S> SSL_FLAGS_CLIENT_AUTH
   sizes <pmtu[/suite[/mode]]>
        clean schedule; -> "sizes hs=<S><C> <to>:<dgram>:<rectype>.<hstype or ->.<epoch>.<total record bytes> ..."
        for every record emitted during the handshake (hstype readable on epoch 0 only)
*/
#define WRAP_TIME
#include "matrixssl/matrixsslImpl.h"
#include "hcommon.h"
#include "testkeys/RSA/2048_RSA.h"
#include "testkeys/RSA/2048_RSA_KEY.h"
#include "testkeys/RSA/2048_RSA_CA.h"

/* ------------------------------------------------------------------ spies */
static int g_spy_decrypt, g_win_called, g_win_ret, g_count_accept;
static int32 spy_decrypt(void *ssl, unsigned char *in, unsigned char *out, uint32 len)
{
    g_spy_decrypt++;
    return -1;
}
int32 __real_dtlsChkReplayWindow(ssl_t *ssl, unsigned char *seq64);
int32 __wrap_dtlsChkReplayWindow(ssl_t *ssl, unsigned char *seq64)
{
    int32 r = __real_dtlsChkReplayWindow(ssl, seq64);
    g_win_called++; g_win_ret = r;
    if (r == 1) g_count_accept++;
    return r;
}

static void hex6(const char *h, unsigned char *o)
{
    unsigned long long v = strtoull(h, NULL, 16);
    for (int i = 5; i >= 0; i--) { o[i] = (unsigned char) (v & 0xff); v >>= 8; }
}
static void put_state(ssl_t *s, int with_exp)
{
    if (with_exp) printf(" exp=%d", (s->expectedEpoch[0] << 8) | s->expectedEpoch[1]);
    printf(" last=%02x%02x%02x%02x%02x%02x bm=%lx\n", s->lastRsn[0], s->lastRsn[1], s->lastRsn[2], s->lastRsn[3],
        s->lastRsn[4], s->lastRsn[5], (unsigned long) s->dtlsBitmap);
}

/* ------------------------------------------------------------------ live machinery */
static sslKeys_t *g_keys;
static ssl_t *peer[2];                     /* 0 server, 1 client */
static int hsdone[2];
static char applog[2][1024];
typedef struct { unsigned char *b; int len; int to; } blob_t;
#define MAXCAP 600
static blob_t dg[MAXCAP], rec[MAXCAP]; static int ndg, nrec;
static const char *g_fates; static int g_nfates;
typedef struct { int isrec, i, j; } inj_t;
static inj_t inj[64]; static int ninj;
static int held[2];
static int g_injacc, g_injchg, g_fail;
static int dead[2]; static int g_trace;
static int sent_any[2], got_this_round[2], want_send[2];

static int g_cipher = 0xC02F, g_mode_r, g_mode_a;
static char g_why[32];
static int32 certCb(ssl_t *ssl, psX509Cert_t *cert, int32 alert) { return 0; }
static void note_fail(int who, char api, int rc)
{
    if (!g_why[0]) snprintf(g_why, sizeof(g_why), "%c%c%d/%d", who ? 'C' : 'S', api, rc, (int) peer[who]->err);
}

static int new_pair(sslSessionId_t *sid)
{
    sslSessOpts_t opts; psCipher16_t cs[1] = { (psCipher16_t) g_cipher };
    memset(&opts, 0, sizeof(opts)); opts.versionFlag = SSL_FLAGS_DTLS | SSL_FLAGS_TLS_1_2;
    if (matrixSslNewClientSession(&peer[1], g_keys, sid, cs, 1, certCb, NULL, NULL, NULL, &opts) != MATRIXSSL_REQUEST_SEND) return -1;
    memset(&opts, 0, sizeof(opts)); opts.versionFlag = SSL_FLAGS_DTLS | SSL_FLAGS_TLS_1_2;
    if (matrixSslNewServerSession(&peer[0], g_keys, g_mode_a ? certCb : NULL, &opts) < 0) { matrixSslDeleteSession(peer[1]); return -1; }
    g_why[0] = 0;
    hsdone[0] = hsdone[1] = 0; applog[0][0] = applog[1][0] = 0; dead[0] = dead[1] = 0; sent_any[0] = sent_any[1] = 0; got_this_round[0] = got_this_round[1] = 0; sent_any[1] = 1; want_send[0] = want_send[1] = 0;
    return 0;
}
static void free_caps(void)
{
    for (int i = 0; i < ndg; i++) free(dg[i].b);
    for (int i = 0; i < nrec; i++) free(rec[i].b);
    ndg = nrec = 0;
}

static int deliver(int who, const unsigned char *b, int len)
{
    unsigned char *buf; uint32 plen = 0; int32 rc;
    if (dead[who]) return -998;
    got_this_round[who] = 1;
    int32 avail = matrixSslGetReadbuf(peer[who], &buf);
    if (avail < len) { g_fail++; return -999; }
    memcpy(buf, b, len);
    rc = matrixSslReceivedData(peer[who], len, &buf, &plen);
    if (g_trace) fprintf(stderr, "  %c <- len=%d [t%d e%d s%d] rc=%d hs=%d exp=%d last=%02x%02x bm=%lx\n", who ? 'C' : 'S', len, b[0], b[4], b[10], rc,
        peer[who]->hsState, peer[who]->expectedEpoch[1], peer[who]->lastRsn[4], peer[who]->lastRsn[5], (unsigned long) peer[who]->dtlsBitmap);
    for (int guard = 0; guard < 64; guard++) {
        if (rc == MATRIXSSL_APP_DATA) {
            size_t l = strlen(applog[who]);
            if (l + plen + 2 < sizeof(applog[who])) { memcpy(applog[who] + l, buf, plen); applog[who][l + plen] = ','; applog[who][l + plen + 1] = 0; }
            rc = matrixSslProcessedData(peer[who], &buf, &plen);
            if (rc == 0) break;
            continue;
        }
        if (rc == MATRIXSSL_HANDSHAKE_COMPLETE) { hsdone[who] = 1; break; }
        if (rc == MATRIXSSL_RECEIVED_ALERT) {
            rc = matrixSslProcessedData(peer[who], &buf, &plen);
            if (rc == 0) break;
            continue;
        }
        break;
    }
    if (rc < 0) { dead[who] = 1; note_fail(who, 'R', rc); }     /* an application closes the session on an error return */
    if (rc == MATRIXSSL_REQUEST_SEND) want_send[who] = 1;
    return rc;
}

static void inject_after(int j);
static void deliver_dg(int idx) { deliver(dg[idx].to, dg[idx].b, dg[idx].len); }

static void flush_out(int who)
{
    unsigned char *buf; int32 len;
    int to = 1 - who;
    while (!dead[who] && ndg < MAXCAP - 1) {
        len = matrixDtlsGetOutdata(peer[who], &buf);
        if (len < 0) { dead[who] = 1; note_fail(who, 'G', len); if (g_trace) fprintf(stderr, "%c GetOutdata rc=%d err=%d\n", who ? 'C' : 'S', len, peer[who]->err); }
        if (len <= 0) break;
        int idx = ndg++;
        dg[idx].b = malloc(len); memcpy(dg[idx].b, buf, len); dg[idx].len = len; dg[idx].to = to;
        for (int off = 0; off + 13 <= len && nrec < MAXCAP - 1; ) {
            int rl = 13 + ((buf[off + 11] << 8) | buf[off + 12]);
            if (off + rl > len) rl = len - off;
            rec[nrec].b = malloc(rl); memcpy(rec[nrec].b, buf + off, rl); rec[nrec].len = rl; rec[nrec].to = to; nrec++;
            off += rl;
        }
        int32 rc = matrixDtlsSentData(peer[who], len);
        sent_any[who] = 1;
        if (g_trace) { fprintf(stderr, "%c -> dg%d len=%d:", who ? 'C' : 'S', idx, len);
            for (int off = 0; off + 13 <= len; off += 13 + ((dg[idx].b[off + 11] << 8) | dg[idx].b[off + 12]))
                fprintf(stderr, " [t%d e%d s%d]", dg[idx].b[off], dg[idx].b[off + 4], dg[idx].b[off + 10]);
            fprintf(stderr, " fate=%c rc=%d\n", idx < g_nfates ? g_fates[idx] : '.', rc); }
        if (rc < 0) { dead[who] = 1; note_fail(who, 'S', rc); }
        if (rc == MATRIXSSL_HANDSHAKE_COMPLETE) hsdone[who] = 1;
        char f = idx < g_nfates ? g_fates[idx] : '.';
        if (f == 'h') {
            if (held[to] >= 0) deliver_dg(held[to]);
            held[to] = idx;
        } else {
            if (f == '.' ) deliver_dg(idx);
            else if (f == '2') { deliver_dg(idx); deliver_dg(idx); }
            if (held[to] >= 0) { deliver_dg(held[to]); held[to] = -1; }
        }
        inject_after(idx);
    }
    if (held[to] >= 0) { deliver_dg(held[to]); held[to] = -1; }
}

static void inject_after(int j)
{
    for (int k = 0; k < ninj; k++) {
        if (inj[k].j != j) continue;
        blob_t *b = inj[k].isrec ? &rec[inj[k].i] : &dg[inj[k].i];
        if (inj[k].i >= (inj[k].isrec ? nrec : ndg)) continue;      /* not captured yet: nothing to replay */
        ssl_t *s = peer[b->to];
        int hs0 = s->hsState, fl0 = s->flags & (SSL_FLAGS_ERROR | SSL_FLAGS_CLOSED);
        size_t al0 = strlen(applog[b->to]);
        int before = g_count_accept;
        deliver(b->to, b->b, b->len);
        g_injacc += g_count_accept - before;
        if (s->hsState != hs0 || (s->flags & (SSL_FLAGS_ERROR | SSL_FLAGS_CLOSED)) != fl0 || strlen(applog[b->to]) != al0)
            g_injchg++;
    }
}

static void send_app(int who, const char *msg)
{
    unsigned char *buf; int l = (int) strlen(msg);
    if (matrixSslGetWritebuf(peer[who], &buf, l) < l) { g_fail++; return; }
    memcpy(buf, msg, l);
    if (matrixSslEncodeWritebuf(peer[who], l) < 0) g_fail++;
    flush_out(who);
}

/* count records that get past gate + window in live mode: wrap the window (accept = returns 1).
   (records that skip the window in the unrepaired code are not counted; the delivered-data
   observation covers them) */

static int run_handshake(int maxrounds);
static int run_live(int maxrounds)
{
    int rounds = run_handshake(maxrounds);
    if (hsdone[0] && hsdone[1]) {
        send_app(1, "A1"); send_app(0, "B1"); send_app(1, "A2"); send_app(1, "A3"); send_app(0, "B2");
    }
    return rounds;
}
static int run_handshake(int maxrounds)
{
    int rounds = 0;
    held[0] = held[1] = -1;
    for (rounds = 0; rounds < maxrounds && !(hsdone[0] && hsdone[1]) && !(dead[0] || dead[1]); rounds++) {
        /* a peer sends when it has output pending; with nothing pending, a peer that has sent a
           flight before and received nothing since its last turn takes a timeout (flight resend) */
        for (int who = 1; who >= 0; who--) {
            if (peer[who]->outlen > 0 || want_send[who] || (sent_any[who] && !got_this_round[who])) { got_this_round[who] = 0; want_send[who] = 0; flush_out(who); }
            else got_this_round[who] = 0;
        }
    }
    return rounds;
}

/* "<pmtu>[/<suite>[/<mode>]]" */
static int parse_cfg(char *t, int default_pmtu)
{
    int pmtu = atoi(t);
    char *sl = strchr(t, '/');
    g_cipher = 0xC02F; g_mode_r = g_mode_a = 0;
    if (sl) {
        if (sl[1] && sl[1] != '/') g_cipher = (int) strtol(sl + 1, NULL, 16);
        char *m = strchr(sl + 1, '/');
        if (m) { g_mode_r = strchr(m + 1, 'r') != NULL; g_mode_a = strchr(m + 1, 'a') != NULL; }
    }
    matrixDtlsSetPmtu(pmtu > 0 ? pmtu : default_pmtu);
    return pmtu;
}

/* a clean full handshake that leaves a resumable session in *sid (and in the server's cache) */
static int prime_session(sslSessionId_t **sid)
{
    const char *f = g_fates; int nf = g_nfates, ni = ninj, ok;
    int pm = matrixDtlsGetPmtu();
    if (matrixSslNewSessionId(sid, NULL) < 0) return -1;
    g_fates = ""; g_nfates = 0; ninj = 0;
    matrixDtlsSetPmtu(-1);                 /* the priming handshake runs unfragmented */
    if (new_pair(*sid) < 0) { g_fates = f; g_nfates = nf; ninj = ni; matrixDtlsSetPmtu(pm); return -1; }
    run_handshake(12);
    ok = hsdone[0] && hsdone[1] && !dead[0] && !dead[1];
    if (!dead[0]) matrixSslDeleteSession(peer[0]);
    if (!dead[1]) matrixSslDeleteSession(peer[1]);
    free_caps();
    g_fates = f; g_nfates = nf; ninj = ni;
    matrixDtlsSetPmtu(pm);
    return ok ? 0 : -1;
}

/* ------------------------------------------------------------------ main */
int main(void)
{
    g_trace = getenv("C16_TRACE") != NULL;
    if (matrixSslOpen() < 0) { printf("INITFAIL\n"); return 2; }
    if (matrixSslNewKeys(&g_keys, NULL) < 0 ||
        matrixSslLoadRsaKeysMem(g_keys, RSA2048, sizeof(RSA2048), RSA2048KEY, sizeof(RSA2048KEY), RSA2048CA, sizeof(RSA2048CA)) < 0) {
        printf("KEYFAIL\n"); return 2;
    }
    /* base pair for the w / g operations: one real handshake */
    ssl_t *base[2] = { NULL, NULL };
    g_fates = ""; g_nfates = 0; ninj = 0;
    if (new_pair(NULL) < 0) { printf("SESSFAIL\n"); return 2; }
    run_live(12);
    if (!(hsdone[0] && hsdone[1])) { printf("BASEHSFAIL\n"); return 2; }
    base[0] = peer[0]; base[1] = peer[1];
    free_caps();
    int32 (*real_decrypt[2])(void *, unsigned char *, unsigned char *, uint32) = { base[0]->decrypt, base[1]->decrypt };
    int default_pmtu = matrixDtlsGetPmtu();

    while (next_case()) {
        if (g_ntok >= 4 && strcmp(g_tok[0], "w") == 0) {
            ssl_t *s = base[0];
            hex6(g_tok[1], s->lastRsn); s->dtlsBitmap = strtoul(g_tok[2], NULL, 16);
            int e = atoi(g_tok[3]); s->expectedEpoch[0] = e >> 8; s->expectedEpoch[1] = e & 0xff;
            for (int k = 4; k < g_ntok; k++) {
                char *colon = strchr(g_tok[k], ':'); if (!colon) { putchar('?'); continue; }
                int re = atoi(g_tok[k]); unsigned char sq[6]; hex6(colon + 1, sq);
                s->rec.epoch[0] = re >> 8; s->rec.epoch[1] = re & 0xff;
                int32 r = __real_dtlsChkReplayWindow(s, sq);
                putchar(r == 1 ? '1' : r == 0 ? '0' : '?');
            }
            put_state(s, 0);
        } else if (g_ntok >= 5 && strcmp(g_tok[0], "g") == 0) {
            int who = g_tok[1][0] == 'C';
            ssl_t *s = base[who];
            hex6(g_tok[2], s->lastRsn); s->dtlsBitmap = strtoul(g_tok[3], NULL, 16);
            int e = atoi(g_tok[4]); s->expectedEpoch[0] = e >> 8; s->expectedEpoch[1] = e & 0xff;
            s->decrypt = spy_decrypt;
            for (int k = 5; k < g_ntok; k++) {
                int type, hs, pccs, ade, re; char sqh[32];
                if (sscanf(g_tok[k], "%d:%d:%d:%d:%d:%12s", &type, &hs, &pccs, &ade, &re, sqh) != 6) { printf("???"); continue; }
                static unsigned char buf[2048];
                unsigned char *p = buf; uint32 len = 14, remaining = 0, requiredLen = 0; int32 error = 0; unsigned char al = 0, ad = 0;
                memset(buf, 0, sizeof(buf));
                buf[0] = (unsigned char) type; buf[1] = 0xfe; buf[2] = 0xfd; buf[3] = re >> 8; buf[4] = re & 0xff;
                hex6(sqh, buf + 5); buf[11] = 0; buf[12] = 1; buf[13] = 1;
                s->hsState = hs; s->parsedCCS = pccs; s->appDataExch = ade;
                s->flags &= ~(SSL_FLAGS_ERROR | SSL_FLAGS_CLOSED | SSL_FLAGS_NEED_ENCODE); s->err = SSL_ALERT_NONE;
                g_spy_decrypt = 0; g_win_called = 0;
                int32 rc = matrixSslDecode(s, &p, &len, sizeof(buf), &remaining, &requiredLen, &error, &al, &ad);
                char cls = '?';
                if (g_spy_decrypt) cls = 'D';
                else if (rc == MATRIXSSL_SUCCESS) cls = 'S';
                else if (rc == DTLS_RETRANSMIT) cls = 'R';
                else if (rc == SSL_SEND_RESPONSE && s->err == SSL_ALERT_UNEXPECTED_MESSAGE) cls = 'U';
                printf("%c%c%c", g_spy_decrypt ? 'a' : 'd', g_win_called ? 'w' : 'n', cls);
            }
            s->decrypt = real_decrypt[who];
            s->flags &= ~(SSL_FLAGS_ERROR | SSL_FLAGS_CLOSED | SSL_FLAGS_NEED_ENCODE); s->err = SSL_ALERT_NONE;
            s->hsState = SSL_HS_DONE;
            put_state(s, 1);
        } else if (g_ntok >= 3 && strcmp(g_tok[0], "live") == 0) {
            sslSessionId_t *sid = NULL;
            parse_cfg(g_tok[1], default_pmtu);
            g_fates = strcmp(g_tok[2], "-") == 0 ? "" : g_tok[2]; g_nfates = (int) strlen(g_fates);
            ninj = 0; g_injacc = g_injchg = g_fail = 0;
            for (int k = 3; k < g_ntok && ninj < 64; k++) {
                int i, j; char c;
                if (sscanf(g_tok[k], "%c%d@%d", &c, &i, &j) == 3 && (c == 'r' || c == 'd')) { inj[ninj].isrec = c == 'r'; inj[ninj].i = i; inj[ninj].j = j; ninj++; }
            }
            if (g_mode_r && prime_session(&sid) < 0) { printf("PRIMEFAIL\n"); if (sid) matrixSslDeleteSessionId(sid); matrixDtlsSetPmtu(default_pmtu); continue; }
            g_injacc = g_injchg = 0;
            if (new_pair(sid) < 0) { printf("SESSFAIL\n"); if (sid) matrixSslDeleteSessionId(sid); matrixDtlsSetPmtu(default_pmtu); continue; }
            int rounds = run_live(40);
            printf("hs=%d%d rounds=%d S=%s C=%s err=%d%d dead=%d%d ndg=%d nrec=%d injacc=%d injchg=%d why=%s res=%d%d ca=%d%s\n", hsdone[0], hsdone[1], rounds,
                applog[0][0] ? applog[0] : "-", applog[1][0] ? applog[1] : "-",
                !!(peer[0]->flags & SSL_FLAGS_ERROR), !!(peer[1]->flags & SSL_FLAGS_ERROR), dead[0], dead[1], ndg, nrec, g_injacc, g_injchg,
                g_why[0] ? g_why : "-", !!(peer[0]->flags & SSL_FLAGS_RESUMED), !!(peer[1]->flags & SSL_FLAGS_RESUMED),
                !!(peer[0]->flags & SSL_FLAGS_CLIENT_AUTH), g_fail ? " HARNESSFAIL" : "");
            if (getenv("C16_DUMP")) {
                for (int i = 0; i < nrec; i++)
                    fprintf(stderr, "rec %d to=%c t%d e%d s%d len=%d\n", i, rec[i].to ? 'C' : 'S', rec[i].b[0], (rec[i].b[3] << 8) | rec[i].b[4],
                        (rec[i].b[7] << 24) | (rec[i].b[8] << 16) | (rec[i].b[9] << 8) | rec[i].b[10], rec[i].len);
            }
            /* a session whose flight resend failed holds a dangling outbuf (reported separately): leak it */
            if (!dead[0]) matrixSslDeleteSession(peer[0]);
            if (!dead[1]) matrixSslDeleteSession(peer[1]);
            if (sid) matrixSslDeleteSessionId(sid);
            free_caps();
            matrixDtlsSetPmtu(default_pmtu);
        } else if (g_ntok == 2 && strcmp(g_tok[0], "sizes") == 0) {
            sslSessionId_t *sid = NULL;
            parse_cfg(g_tok[1], default_pmtu);
            g_fates = ""; g_nfates = 0; ninj = 0; g_fail = 0;
            if (g_mode_r && prime_session(&sid) < 0) { printf("PRIMEFAIL\n"); if (sid) matrixSslDeleteSessionId(sid); matrixDtlsSetPmtu(default_pmtu); continue; }
            if (new_pair(sid) < 0) { printf("SESSFAIL\n"); if (sid) matrixSslDeleteSessionId(sid); matrixDtlsSetPmtu(default_pmtu); continue; }
            run_handshake(12);
            printf("sizes hs=%d%d why=%s", hsdone[0], hsdone[1], g_why[0] ? g_why : "-");
            for (int d = 0, r = 0; d < ndg; d++)
                for (int off = 0; off + 13 <= dg[d].len && r < nrec; r++) {
                    unsigned char *b = dg[d].b + off; int rl = 13 + ((b[11] << 8) | b[12]); int ep = (b[3] << 8) | b[4];
                    if (b[0] == 22 && ep == 0) printf(" %c:%d:%d.%d.%d.%d", dg[d].to ? 'C' : 'S', d, b[0], b[13], ep, rl);
                    else printf(" %c:%d:%d.-.%d.%d", dg[d].to ? 'C' : 'S', d, b[0], ep, rl);
                    off += rl;
                }
            printf("\n");
            if (!dead[0]) matrixSslDeleteSession(peer[0]);
            if (!dead[1]) matrixSslDeleteSession(peer[1]);
            if (sid) matrixSslDeleteSessionId(sid);
            free_caps();
            matrixDtlsSetPmtu(default_pmtu);
        } else printf("BADCASE\n");
        fflush(stdout);
    }
    return 0;
}
