/* h_threads.c - C20: N threads drive distinct in-memory TLS sessions against ONE shared server
   sslKeys_t (identity, ticket keys, ECDHE cache), ONE shared client sslKeys_t (CA list), the global
   session cache, the global PRNG and the CRL cache.  Built plain / tsan / asan.

   One scenario per stdin line, result lines on stdout (one per operation, canonical), terminated by
   a line "END ...".  Everything random derives from seed=; the operation list of every thread is a
   pure function of (seed, T, K, thread id) so that a concurrent run and the sequential runs execute
   THE SAME operations and only the schedule differs.

     run mode=conc|seq order=<0:thread-major,1:reverse,2:round-robin> T=<workers> K=<ops/worker> seed=<n>
         rot=<0|1> crl=<hex DER CRL or -> jitter=<0..100>
     uaf                ticket_cb schedule for the getTicketKeys candidate (see props/C20.py)
     nullkey            delete the only ticket key between two flights of a ticket-issuing handshake
     nullkey13          same for the TLS 1.3 NewSessionTicket path

   Per-thread peers only (no globals of sess.h are used); the calendar is pinned (hcommon.h wrap), the
   entropy source and PRNG are the library's own (the PRNG lock is part of what is tested). */
#define _GNU_SOURCE
#define WRAP_TIME
#include "matrixssl/matrixsslImpl.h"
#include "hcommon.h"
#include "testkeys/RSA/2048_RSA.h"
#include "testkeys/RSA/2048_RSA_KEY.h"
#include "testkeys/RSA/2048_RSA_CA.h"
#include <pthread.h>
#include <semaphore.h>
#include <signal.h>
#include <unistd.h>
#include <sched.h>
#include <errno.h>

#define MAXT 8
#define MAXK 64

enum { K_FULL12, K_RES12, K_FULL12T, K_RES12T, K_FULL13, K_RES13, K_ABORT12, K_DEL12, K_NKINDS };
static const char *KNAME[] = { "full12", "res12", "full12t", "res12t", "full13", "res13", "abort12", "del12" };

static sslKeys_t *g_skeys, *g_ckeys;
static int g_jitter = 30;
static int g_progress[MAXT + 4];        /* watchdog: advanced by every worker step (own slot per thread) */
static int g_where[MAXT + 4];

/* ------------------------------------------------------------------ per-thread rng + jitter */
typedef struct { uint64_t s; } rng_t;
static uint32_t rnd(rng_t *r) { r->s ^= r->s << 13; r->s ^= r->s >> 7; r->s ^= r->s << 17; return (uint32_t) (r->s >> 20); }
static void rng_init(rng_t *r, uint64_t seed, uint64_t lane) { r->s = (seed + 1) * 0x9E3779B97F4A7C15ULL ^ (lane + 1) * 0xD1B54A32D192ED03ULL; if (!r->s) r->s = 1; rnd(r); rnd(r); }
static void jitter(rng_t *r) {
    if (g_jitter <= 0) return;
    uint32_t x = rnd(r) % 100;
    if (x >= (uint32_t) g_jitter) return;
    if (x % 3 == 0) usleep(rnd(r) % 300); else sched_yield();
}

/* ------------------------------------------------------------------ one in-memory connection */
typedef struct { ssl_t *ssl; int done, err, closed, alerts; unsigned char app[128]; int applen; } side_t;
typedef struct { side_t c, s; rng_t *jr; int tid; } conn_t;

static void feed(conn_t *cn, side_t *to, const unsigned char *d, int32 len)
{
    int32 off = 0; int guard = 0;
    while (off < len && guard++ < 10000 && !to->err) {
        unsigned char *rb; int32 room = matrixSslGetReadbuf(to->ssl, &rb);
        if (room <= 0) { to->err = -9000 + room; return; }
        int32 n = len - off; if (n > room) n = room;
        memcpy(rb, d + off, (size_t) n); off += n;
        unsigned char *pt; uint32 ptlen;
        jitter(cn->jr);
        int32 rc = matrixSslReceivedData(to->ssl, (uint32) n, &pt, &ptlen);
        for (;;) {
            g_progress[cn->tid]++;
            if (rc == MATRIXSSL_APP_DATA || rc == MATRIXSSL_APP_DATA_COMPRESSED) {
                if (to->applen + (int) ptlen <= (int) sizeof to->app) { memcpy(to->app + to->applen, pt, ptlen); to->applen += (int) ptlen; }
                rc = matrixSslProcessedData(to->ssl, &pt, &ptlen); continue;
            }
            if (rc == MATRIXSSL_RECEIVED_ALERT) {
                to->alerts++;
                if (ptlen >= 2 && pt[1] == SSL_ALERT_CLOSE_NOTIFY) to->closed = 1;
                else if (ptlen >= 2) to->err = -8000 - pt[1];
                rc = matrixSslProcessedData(to->ssl, &pt, &ptlen); continue;
            }
            if (rc == MATRIXSSL_HANDSHAKE_COMPLETE) { to->done = 1; break; }
            if (rc == MATRIXSSL_REQUEST_SEND || rc == MATRIXSSL_REQUEST_RECV || rc == MATRIXSSL_SUCCESS) break;
            if (rc == MATRIXSSL_REQUEST_CLOSE) { to->closed = 1; break; }
            to->err = rc < 0 ? rc : -7000 - rc; return;
        }
    }
}

/* move everything `from` wants to send to `to`; returns bytes moved */
static int drain(conn_t *cn, side_t *from, side_t *to)
{
    int moved = 0; unsigned char *buf; int32 n; int guard = 0;
    while (guard++ < 1000 && (n = matrixSslGetOutdata(from->ssl, &buf)) > 0) {
        unsigned char *tmp = malloc((size_t) n); memcpy(tmp, buf, (size_t) n);
        jitter(cn->jr);
        int32 rc = matrixSslSentData(from->ssl, (uint32) n);
        if (rc == MATRIXSSL_HANDSHAKE_COMPLETE) from->done = 1;
        else if (rc == MATRIXSSL_REQUEST_CLOSE) from->closed = 1;
        else if (rc < 0) from->err = rc;
        if (!to->err) feed(cn, to, tmp, n);
        free(tmp); moved += n;
        g_progress[cn->tid]++;
    }
    return moved;
}

static void pump(conn_t *cn)
{
    for (int g = 0; g < 64; g++) {
        int m = drain(cn, &cn->c, &cn->s) + drain(cn, &cn->s, &cn->c);
        if (!m) break;
    }
}

static int conn_open(conn_t *cn, int tls13, int ticket, sslSessionId_t *sid)
{
    sslSessOpts_t so; psProtocolVersion_t v[1]; int32 rc;
    memset(&so, 0, sizeof so);
    v[0] = tls13 ? v_tls_1_3 : v_tls_1_2;
    if ((rc = matrixSslSessOptsSetServerTlsVersions(&so, v, 1)) < 0) return rc - 100;
    if ((rc = matrixSslNewServerSession(&cn->s.ssl, g_skeys, NULL, &so)) < 0) return rc - 200;
    memset(&so, 0, sizeof so);
    if ((rc = matrixSslSessOptsSetClientTlsVersions(&so, v, 1)) < 0) return rc - 300;
    if (ticket) so.ticketResumption = 1;
    rc = matrixSslNewClientSession(&cn->c.ssl, g_ckeys, sid, NULL, 0, NULL, NULL, NULL, NULL, &so);
    if (rc != MATRIXSSL_REQUEST_SEND) return rc - 400;
    return 0;
}

static void conn_close(conn_t *cn)
{
    if (cn->c.ssl) matrixSslDeleteSession(cn->c.ssl);
    if (cn->s.ssl) matrixSslDeleteSession(cn->s.ssl);
    cn->c.ssl = cn->s.ssl = NULL;
}

/* ------------------------------------------------------------------ one operation = one session */
typedef struct {
    sslSessionId_t *sid12, *sid12t, *sid13;
    int have12, have12t, have13, deleted12;
} tstate_t;

typedef struct { int kind; char res[96]; } op_t;

static void fresh_sid(sslSessionId_t **p) { if (*p) matrixSslDeleteSessionId(*p); *p = NULL; matrixSslNewSessionId(p, NULL); }

static void run_op(int tid, int idx, int kind, tstate_t *ts, rng_t *jr, char *out, size_t outsz)
{
    conn_t cn; memset(&cn, 0, sizeof cn); cn.jr = jr; cn.tid = tid;
    int tls13 = (kind == K_FULL13 || kind == K_RES13);
    int ticket = (kind == K_FULL12T || kind == K_RES12T);
    sslSessionId_t **sp = tls13 ? &ts->sid13 : ticket ? &ts->sid12t : &ts->sid12;
    int resume = (kind == K_RES12 || kind == K_RES12T || kind == K_RES13);
    if (!resume) fresh_sid(sp);
    g_where[tid] = idx * 100 + 1;
    int rc = conn_open(&cn, tls13, ticket, *sp);
    if (rc) { snprintf(out, outsz, "open=%d", rc); conn_close(&cn); return; }
    if (kind == K_ABORT12) {
        /* ClientHello -> server flight, then both sides are dropped without closure */
        drain(&cn, &cn.c, &cn.s);
        int reg = cn.s.ssl->sessionIdLen > 0;
        conn_close(&cn);
        ts->have12 = 0; ts->deleted12 = 0;
        snprintf(out, outsz, "aborted reg=%d", reg);
        return;
    }
    g_where[tid] = idx * 100 + 2;
    pump(&cn);
    int hs_ok = cn.c.done && cn.s.done && !cn.c.err && !cn.s.err;
    int resumed = 0, data_ok = 0, got_tkt = 0;
    if (hs_ok) {
        resumed = isResumedHandshake(cn.s.ssl) ? 1 : 0;
        /* data both ways */
        unsigned char msg[32]; int ml = snprintf((char *) msg, sizeof msg, "ping-%d-%d", tid, idx);
        g_where[tid] = idx * 100 + 3;
        if (matrixSslEncodeToOutdata(cn.c.ssl, msg, (uint32) ml) >= 0) {
            pump(&cn);
            int okc2s = cn.s.applen == ml && memcmp(cn.s.app, msg, (size_t) ml) == 0;
            msg[1] = 'o';
            if (matrixSslEncodeToOutdata(cn.s.ssl, msg, (uint32) ml) >= 0) {
                pump(&cn);
                data_ok = okc2s && cn.c.applen == ml && memcmp(cn.c.app, msg, (size_t) ml) == 0;
            }
        }
        if (kind == K_DEL12) {
            /* application-level removal of the cached session (matrixClearSession(ssl, 1)) */
            matrixSslSetSessionOption(cn.s.ssl, SSL_OPTION_FULL_HANDSHAKE, NULL);
        }
        g_where[tid] = idx * 100 + 4;
        matrixSslEncodeClosureAlert(cn.c.ssl); pump(&cn);
        matrixSslEncodeClosureAlert(cn.s.ssl); pump(&cn);
        if (tls13) got_tkt = (*sp)->psk != NULL;
        else if (ticket) got_tkt = (*sp)->sessionTicket != NULL && (*sp)->sessionTicketLen > 0;
    }
    snprintf(out, outsz, "hs=%s res=%d data=%s tkt=%d", hs_ok ? "ok" : "fail", resumed, data_ok ? "ok" : "bad", got_tkt);
    if (!hs_ok) { size_t l = strlen(out); snprintf(out + l, outsz - l, " cerr=%d serr=%d", cn.c.err, cn.s.err); }
    g_where[tid] = idx * 100 + 5;
    conn_close(&cn);
    (void) resume;
}

/* operation list of a worker: pure function of (seed, tid); a resumption always follows a full
   handshake of its family; registrations in the 32-entry session table are capped so that no
   cache entry is ever recycled (resumption outcomes are then schedule independent) */
static int gen_ops(uint64_t seed, int tid, int T, int K, int *kinds, unsigned mix)
{
    rng_t r; rng_init(&r, seed, 1000 + (uint64_t) tid);
    int have12 = 0, have12t = 0, have13 = 0, regs = 0, cap = 30 / (T > 0 ? T : 1), n = 0;
    if (!(mix & ((1u << K_NKINDS) - 1))) mix = (1u << K_NKINDS) - 1;
    while (n < K) {
        int k = (int) (rnd(&r) % K_NKINDS);
        while (!(mix & (1u << k))) k = (k + 1) % K_NKINDS;
        if (k == K_RES12 && !have12) k = K_FULL12;
        if (k == K_RES12T && !have12t) k = K_FULL12T;
        if (k == K_RES13 && !have13) k = K_FULL13;
        if ((k == K_FULL12 || k == K_ABORT12 || k == K_DEL12) && regs >= cap) k = have12 ? K_RES12 : (have12t ? K_RES12T : ((mix & (1u << K_FULL12T)) ? K_FULL12T : K_FULL13));
        if (k == K_FULL12) { have12 = 1; regs++; }
        if (k == K_ABORT12) { have12 = 0; regs++; }
        if (k == K_DEL12) { have12 = 1; regs++; }     /* the sid survives on the client; the server forgot it */
        if (k == K_FULL12T) have12t = 1;
        if (k == K_FULL13) have13 = 1;
        kinds[n++] = k;
    }
    return n;
}

/* ------------------------------------------------------------------ workers, rotator, CRL thread */
typedef struct { int tid, T, K; uint64_t seed; int kinds[MAXK]; char res[MAXK][96]; tstate_t ts; rng_t jr; int next; } worker_t;
static worker_t g_w[MAXT];

static void worker_step(worker_t *w)
{
    int i = w->next++;
    run_op(w->tid, i, w->kinds[i], &w->ts, &w->jr, w->res[i], sizeof w->res[i]);
}
static void *worker_main(void *a) { worker_t *w = a; while (w->next < w->K) worker_step(w); g_where[w->tid] = -1; return NULL; }

static const unsigned char KEY_A[16] = "verif-key-AAAAA", KEY_B[16] = "verif-key-BBBBB", KEY_C[16] = "verif-key-CCCCC";
static unsigned char g_sym[32], g_mac[32];
typedef struct { int rounds; int load_fail, del_fail; rng_t jr; int stop; int done_rounds; int rota; } rot_t;
static rot_t g_rot;
static void rot_step(rot_t *r)
{
    if (r->rota) {
        /* rotation of the ISSUING key: [A] -> [A,B] -> [B] -> [B,A] -> [A]; the list is never empty.  A delete is refused
           while a session has the key pinned (inUse): retried a few times, failures are not counted */
        if (matrixSslLoadSessionTicketKeys(g_skeys, KEY_B, g_sym, 32, g_mac, 32) < 0) r->load_fail++;
        jitter(&r->jr);
        int ok = 0; for (int i = 0; i < 2000 && !ok; i++) { ok = matrixSslDeleteSessionTicketKey(g_skeys, (unsigned char *) KEY_A) >= 0; if (!ok) sched_yield(); }
        jitter(&r->jr);
        if (ok && matrixSslLoadSessionTicketKeys(g_skeys, KEY_A, g_sym, 32, g_mac, 32) < 0) r->load_fail++;
        jitter(&r->jr);
        ok = 0; for (int i = 0; i < 2000 && !ok; i++) { ok = matrixSslDeleteSessionTicketKey(g_skeys, (unsigned char *) KEY_B) >= 0; if (!ok) sched_yield(); }
        if (!ok) r->del_fail++;
        r->done_rounds++; g_progress[MAXT]++;
        return;
    }
    /* ticket-key rotation: append B, append C, remove B, remove C (A, the issuing key, stays first) */
    if (matrixSslLoadSessionTicketKeys(g_skeys, KEY_B, g_sym, 32, g_mac, 32) < 0) r->load_fail++;
    jitter(&r->jr);
    if (matrixSslLoadSessionTicketKeys(g_skeys, KEY_C, g_sym, 16, g_mac, 32) < 0) r->load_fail++;
    jitter(&r->jr);
    if (matrixSslDeleteSessionTicketKey(g_skeys, (unsigned char *) KEY_B) < 0) r->del_fail++;
    jitter(&r->jr);
    if (matrixSslDeleteSessionTicketKey(g_skeys, (unsigned char *) KEY_C) < 0) r->del_fail++;
    r->done_rounds++; g_progress[MAXT]++;
}
static void *rot_main(void *a) { rot_t *r = a; while (!__atomic_load_n(&r->stop, __ATOMIC_ACQUIRE) && r->done_rounds < r->rounds) { rot_step(r); usleep(200); } return NULL; }

typedef struct { unsigned char *der; size_t len; int rounds, parse_fail, ins, del; rng_t jr; int stop; int done_rounds; } crl_t;
static crl_t g_crl;
static void crl_step(crl_t *c)
{
    psX509Crl_t *crl = NULL;
    if (c->len == 0) { c->done_rounds++; return; }
    if (psX509ParseCRL(NULL, &crl, c->der, (int32) c->len) < 0 || !crl) { c->parse_fail++; c->done_rounds++; return; }
    c->ins += psCRL_Update(crl, 1);
    jitter(&c->jr);
    (void) psCRL_GetCRLForCert(g_skeys->identity ? g_skeys->identity->cert : NULL);
    jitter(&c->jr);
    c->del += psCRL_Delete(crl);
    c->done_rounds++; g_progress[MAXT + 1]++;
}
static void *crl_main(void *a) { crl_t *c = a; while (!__atomic_load_n(&c->stop, __ATOMIC_ACQUIRE) && c->done_rounds < c->rounds) { crl_step(c); usleep(200); } return NULL; }

/* ------------------------------------------------------------------ process-wide set-up */
static int setup_keys(int with_ticket_key)
{
    if (matrixSslNewKeys(&g_skeys, NULL) < 0 || matrixSslNewKeys(&g_ckeys, NULL) < 0) return -1;
    if (matrixSslLoadRsaKeysMem(g_skeys, RSA2048, sizeof RSA2048, RSA2048KEY, sizeof RSA2048KEY, NULL, 0) < 0) return -2;
    if (matrixSslLoadRsaKeysMem(g_ckeys, NULL, 0, NULL, 0, RSA2048CA, sizeof RSA2048CA) < 0) return -3;
    memset(g_sym, 0x5a, 32); memset(g_mac, 0xa5, 32);
    if (with_ticket_key && matrixSslLoadSessionTicketKeys(g_skeys, KEY_A, g_sym, 32, g_mac, 32) < 0) return -4;
    return 0;
}
static void teardown_keys(void)
{
    if (g_skeys) matrixSslDeleteKeys(g_skeys); if (g_ckeys) matrixSslDeleteKeys(g_ckeys);
    g_skeys = g_ckeys = NULL;
}

static int kv(const char *key, const char *dflt, const char **out)
{
    size_t kl = strlen(key);
    for (int i = 1; i < g_ntok; i++) if (!strncmp(g_tok[i], key, kl) && g_tok[i][kl] == '=') { *out = g_tok[i] + kl + 1; return 1; }
    *out = dflt; return 0;
}

static int timed_join(pthread_t th, int secs)
{
    struct timespec ts; clock_gettime(CLOCK_REALTIME, &ts); ts.tv_sec += secs;
    return pthread_timedjoin_np(th, NULL, &ts);
}

static void do_run(void)
{
    const char *v; int T, K, order, conc, rot; uint64_t seed;
    kv("mode", "conc", &v); conc = !strcmp(v, "conc");
    kv("order", "0", &v); order = atoi(v);
    kv("T", "4", &v); T = atoi(v); if (T < 1) T = 1; if (T > MAXT) T = MAXT;
    kv("K", "8", &v); K = atoi(v); if (K < 1) K = 1; if (K > MAXK) K = MAXK;
    kv("seed", "1", &v); seed = strtoull(v, NULL, 10);
    kv("rot", "1", &v); rot = atoi(v);
    kv("rota", "0", &v); int rota = atoi(v);
    kv("mix", "255", &v); unsigned mix = (unsigned) strtoul(v, NULL, 0);
    kv("jitter", "30", &v); g_jitter = atoi(v);
    kv("wd", "120", &v); int wd = atoi(v);
    kv("crl", "-", &v);
    memset(&g_crl, 0, sizeof g_crl); g_crl.len = unhex(v, &g_crl.der);
    matrixSslClose(); if (matrixSslOpen() < 0) { printf("END initfail\n"); return; }
    int rc = setup_keys(1); if (rc) { printf("END keysfail=%d\n", rc); return; }
    memset(g_w, 0, sizeof g_w); memset(g_progress, 0, sizeof g_progress);
    for (int t = 0; t < T; t++) {
        g_w[t].tid = t; g_w[t].T = T; g_w[t].K = K; g_w[t].seed = seed;
        gen_ops(seed, t, T, K, g_w[t].kinds, mix);
        rng_init(&g_w[t].jr, seed, 2000 + (uint64_t) t);
    }
    memset(&g_rot, 0, sizeof g_rot); g_rot.rota = rota; g_rot.rounds = rot ? 3 * K : 0; rng_init(&g_rot.jr, seed, 3000);
    g_crl.rounds = g_crl.len ? 3 * K : 0; rng_init(&g_crl.jr, seed, 3001);
    int deadlock = 0;
    if (conc) {
        pthread_t th[MAXT], rth, cth;
        for (int t = 0; t < T; t++) pthread_create(&th[t], NULL, worker_main, &g_w[t]);
        pthread_create(&rth, NULL, rot_main, &g_rot);
        pthread_create(&cth, NULL, crl_main, &g_crl);
        for (int t = 0; t < T; t++) if (timed_join(th[t], wd) != 0) { deadlock = 1; printf("STUCK t=%d where=%d\n", t, g_where[t]); }
        __atomic_store_n(&g_rot.stop, 1, __ATOMIC_RELEASE); __atomic_store_n(&g_crl.stop, 1, __ATOMIC_RELEASE);
        if (timed_join(rth, 20) != 0) { deadlock = 1; printf("STUCK rotator\n"); }
        if (timed_join(cth, 20) != 0) { deadlock = 1; printf("STUCK crl\n"); }
        if (deadlock) { printf("END deadlock=1\n"); fflush(stdout); _exit(3); }
    } else {
        /* the same operations in one sequential order */
        g_jitter = 0;
        int left = T * K, rr = 0;
        while (left > 0) {
            int t;
            if (order == 2) { t = rr++ % T; if (g_w[t].next >= K) continue; }
            else { t = -1; for (int j = 0; j < T; j++) { int c = order == 1 ? T - 1 - j : j; if (g_w[c].next < K) { t = c; break; } } }
            worker_step(&g_w[t]); left--;
            if (g_rot.done_rounds < g_rot.rounds) rot_step(&g_rot);
            if (g_crl.done_rounds < g_crl.rounds) crl_step(&g_crl);
        }
        while (g_rot.done_rounds < g_rot.rounds) rot_step(&g_rot);
        while (g_crl.done_rounds < g_crl.rounds) crl_step(&g_crl);
    }
    for (int t = 0; t < T; t++) {
        for (int i = 0; i < K; i++) printf("OP t=%d i=%d k=%s %s\n", t, i, KNAME[g_w[t].kinds[i]], g_w[t].res[i]);
        if (g_w[t].ts.sid12) matrixSslDeleteSessionId(g_w[t].ts.sid12);
        if (g_w[t].ts.sid12t) matrixSslDeleteSessionId(g_w[t].ts.sid12t);
        if (g_w[t].ts.sid13) matrixSslDeleteSessionId(g_w[t].ts.sid13);
    }
    /* ticket list must be back to exactly [A]; CRL cache empty */
    int nk = 0; for (psSessionTicketKeys_t *k = g_skeys->sessTickets; k; k = k->next) nk++;
    printf("ROT load_fail=%d del_fail=%d keys_left=%d\n", g_rot.load_fail, g_rot.del_fail, nk);
    printf("CRL parse_fail=%d ins=%d del=%d rounds=%d\n", g_crl.parse_fail, g_crl.ins == g_crl.done_rounds - g_crl.parse_fail, g_crl.del == g_crl.ins, g_crl.rounds > 0);
    teardown_keys(); free(g_crl.der); g_crl.der = NULL;
    printf("END deadlock=0\n");
}

/* ------------------------------------------------------------------ candidate: getTicketKeys + ticket_cb
   A: ticket-resumes; getTicketKeys finds key A (inUse=1), drops g_sessTicketLock, calls ticket_cb -> blocks.
   M: runs a complete second ticket resumption with the same key (its matrixUnlockSessionTicket ends with
      inUse=0), then matrixSslDeleteSessionTicketKey(A): the spec (key pinned while a session uses it) demands
      a refusal; the code frees the key.  M releases A, which continues with the dangling `lkey`. */
static sem_t g_in_cb, g_go; static __thread int t_block_in_cb;
static int g_cb_calls;
static int32 ticket_cb(void *keys, unsigned char name[16], short found)
{
    (void) keys; (void) name; __sync_fetch_and_add(&g_cb_calls, 1);
    if (t_block_in_cb) { sem_post(&g_in_cb); sem_wait(&g_go); }
    return found ? 0 : -1;
}
typedef struct { tstate_t ts; char res[96]; rng_t jr; } uaf_t;
static void *uaf_thread(void *a) { uaf_t *u = a; t_block_in_cb = 1; run_op(0, 1, K_RES12T, &u->ts, &u->jr, u->res, sizeof u->res); return NULL; }

static void do_uaf(void)
{
    g_jitter = 0;
    matrixSslClose(); if (matrixSslOpen() < 0) { printf("END initfail\n"); return; }
    if (setup_keys(1)) { printf("END keysfail\n"); return; }
    /* a second key so that the list survives the deletion of A */
    matrixSslLoadSessionTicketKeys(g_skeys, KEY_B, g_sym, 32, g_mac, 32);
    matrixSslSetSessionTicketCallback(g_skeys, ticket_cb);
    sem_init(&g_in_cb, 0, 0); sem_init(&g_go, 0, 0);
    uaf_t ua, ub; memset(&ua, 0, sizeof ua); memset(&ub, 0, sizeof ub); rng_init(&ua.jr, 1, 1); rng_init(&ub.jr, 1, 2);
    char r0[96], r1[96];
    run_op(0, 0, K_FULL12T, &ua.ts, &ua.jr, r0, sizeof r0);
    run_op(1, 0, K_FULL12T, &ub.ts, &ub.jr, r1, sizeof r1);
    printf("UAF prep A: %s | B: %s\n", r0, r1);
    pthread_t th; pthread_create(&th, NULL, uaf_thread, &ua);
    struct timespec ts; clock_gettime(CLOCK_REALTIME, &ts); ts.tv_sec += 30;
    if (sem_timedwait(&g_in_cb, &ts) != 0) { printf("END uaf=callback-not-reached\n"); fflush(stdout); _exit(3); }
    /* A is inside ticket_cb, lock dropped, holding lkey -> key A */
    run_op(1, 1, K_RES12T, &ub.ts, &ub.jr, ub.res, sizeof ub.res);
    int inuse_before = -1; for (psSessionTicketKeys_t *k = g_skeys->sessTickets; k; k = k->next) if (!memcmp(k->name, KEY_A, 16)) inuse_before = k->inUse;
    int del = matrixSslDeleteSessionTicketKey(g_skeys, (unsigned char *) KEY_A);
    int still = 0; for (psSessionTicketKeys_t *k = g_skeys->sessTickets; k; k = k->next) if (!memcmp(k->name, KEY_A, 16)) still = 1;
    sem_post(&g_go);
    if (timed_join(th, 30) != 0) { printf("END uaf=deadlock\n"); fflush(stdout); _exit(3); }
    printf("UAF B-resume: %s\n", ub.res);
    printf("UAF inuse_seen_by_deleter=%d delete_rc=%d key_still_listed=%d\n", inuse_before, del, still);
    printf("UAF A-resume-after-delete: %s\n", ua.res);
    /* the deleted key was pinned by A (between getTicketKeys and the end of matrixUnlockSessionTicket) */
    printf("UAF verdict=%s\n", (del == 0 && !still) ? "key-freed-while-in-use" : "delete-refused");
    if (ua.ts.sid12t) matrixSslDeleteSessionId(ua.ts.sid12t);
    if (ub.ts.sid12t) matrixSslDeleteSessionId(ub.ts.sid12t);
    teardown_keys();
    printf("END cb_calls=%d\n", g_cb_calls);
}

/* ------------------------------------------------------------------ candidate: last ticket key deleted
   between the flight that promised a ticket and the flight that creates it */
static void do_nullkey(int tls13)
{
    g_jitter = 0;
    matrixSslClose(); if (matrixSslOpen() < 0) { printf("END initfail\n"); return; }
    if (setup_keys(1)) { printf("END keysfail\n"); return; }
    rng_t jr; rng_init(&jr, 1, 1);
    conn_t cn; memset(&cn, 0, sizeof cn); cn.jr = &jr; cn.tid = 0;
    sslSessionId_t *sid = NULL; matrixSslNewSessionId(&sid, NULL);
    int rc = conn_open(&cn, tls13, !tls13, sid);
    if (rc) { printf("END open=%d\n", rc); return; }
    drain(&cn, &cn.c, &cn.s);                      /* ClientHello -> server; server flight -> client (and back) is NOT yet sent */
    int del = matrixSslDeleteSessionTicketKey(g_skeys, (unsigned char *) KEY_A);
    printf("NULLKEY delete_rc=%d list_empty=%d\n", del, g_skeys->sessTickets == NULL); fflush(stdout);
    pump(&cn);
    printf("NULLKEY hs c=%d/%d s=%d/%d\n", cn.c.done, cn.c.err, cn.s.done, cn.s.err);
    conn_close(&cn); matrixSslDeleteSessionId(sid); teardown_keys();
    printf("END survived=1\n");
}

static void on_alarm(int sig)
{
    static const char b[] = "\nEND deadlock=1 (scenario watchdog)\n";
    (void) sig; if (write(1, b, sizeof b - 1) < 0) { }
    _exit(3);
}

static void on_fatal(int sig)
{
    char b[64]; int n = snprintf(b, sizeof b, "\nEND crash=signal-%d\n", sig);
    if (write(1, b, (size_t) n) < 0) { }
    _exit(4);
}

int main(void)
{
    setvbuf(stdout, NULL, _IOLBF, 0);
#if !defined(__SANITIZE_ADDRESS__) && !defined(__SANITIZE_THREAD__)
    signal(SIGSEGV, on_fatal); signal(SIGBUS, on_fatal); signal(SIGABRT, on_fatal);
#endif
    if (matrixSslOpen() < 0) { printf("END initfail\n"); return 2; }
    while (next_case()) {
        if (g_ntok == 0) continue;
        if (!strcmp(g_tok[0], "run")) do_run();
        else if (!strcmp(g_tok[0], "uaf")) { signal(SIGALRM, on_alarm); alarm(90); do_uaf(); alarm(0); }
        else if (!strcmp(g_tok[0], "nullkey")) { signal(SIGALRM, on_alarm); alarm(90); do_nullkey(0); alarm(0); }
        else if (!strcmp(g_tok[0], "nullkey13")) { signal(SIGALRM, on_alarm); alarm(90); do_nullkey(1); alarm(0); }
        else printf("END unknown\n");
        fflush(stdout);
    }
    matrixSslClose();
    return 0;
}
