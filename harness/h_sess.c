/* h_sess: script interpreter over sess.h.  One scenario per input line; commands separated by " ; ".
   new k=v ...      create client+server (cv=3,4 sv=3,4 suite=c02f,... cauth=0|1 ccb=0|1|2 scb=0|1|2 key=rsa|ec
                    resume=0|1 ticket=0|1 name=<expected> year=<yyyy> seed=<n> cca=0|1|2 keepkeys=0|1)
   hs               pump records both ways until quiescent (quiet), print completion of each side
   pumpv            same but verbose (every event)
   step <c2s|s2c> [n]   deliver the next n records (default 1) one at a time, print receiver events
   inj <c|s> <hex>  feed raw bytes to a side (attacker), print events
   injc <c|s> <hex> <chunk>   same, split into chunks of <chunk> bytes
   app <c|s> <hex>  application send (matrixSslEncodeToOutdata), print rc, flush to the wire
   closure <c|s>    matrixSslEncodeClosureAlert, print rc, flush
   save <c2s|s2c> <slot>      copy the head record of the queue into a slot (does not remove it)
   drop <c2s|s2c> [n]         remove n head records
   replay <c|s> <slot>        feed the saved record to a side
   xor <c2s|s2c> <offset> <hexbyte>  edit head record in the queue
   q                print queue lengths (records)
   st               print snapshot of both sides
   DTLS (`new ... dtls=1`; cv/sv minor 3 = DTLS 1.2, 2 = DTLS 1.0): the wire queues hold DTLS records (13-byte headers); `step`
   delivers ONE record as a datagram of its own, `stepdg <c2s|s2c> [n]` delivers whole datagrams as the sender emitted them,
   `resend <c|s>` is the application's retransmission timeout (matrixDtlsGetOutdata with nothing pending rebuilds the last flight);
   metadata of DTLS records carries ep=<epoch> sq=<sequence number> dg=<last record of its datagram> vr=<record version>, snapshots of DTLS
   sessions carry the suffix dt=1,xe=<expected epoch>,pc=<parsedCCS>,ax=<appDataExch>,lr=<last rsn>,bm=<window bitmap>,fd=,ol=,we=
*/
#include "sess.h"

#define NSLOT 16
static unsigned char *g_slot[NSLOT]; static size_t g_slotlen[NSLOT];

static int parse_list(const char *s, int *out, int max) { int n = 0; while (*s && n < max) { out[n++] = atoi(s); while (*s && *s != ',') s++; if (*s) s++; } return n; }

static void do_new(char **a, int n) {
    scfg_t c; memset(&c, 0, sizeof c); c.cca = 1; c.seed = 1;
    for (int i = 0; i < n; i++) {
        char *eq = strchr(a[i], '='); if (!eq) continue; *eq = 0; char *v = eq + 1;
        if (!strcmp(a[i], "cv")) c.ncver = parse_list(v, c.cver, 4);
        else if (!strcmp(a[i], "sv")) c.nsver = parse_list(v, c.sver, 4);
        else if (!strcmp(a[i], "suite")) { while (*v && c.nsuites < 8) { c.suites[c.nsuites++] = (psCipher16_t) strtol(v, &v, 16); if (*v == ',') v++; } }
        else if (!strcmp(a[i], "cauth")) c.cauth = atoi(v);
        else if (!strcmp(a[i], "ccb")) c.ccb = atoi(v);
        else if (!strcmp(a[i], "scb")) c.scb = atoi(v);
        else if (!strcmp(a[i], "key")) c.key = !strcmp(v, "ec") ? 1 : (!strcmp(v, "rsa4096") ? 2 : 0);
        else if (!strcmp(a[i], "resume")) c.resume = atoi(v);
        else if (!strcmp(a[i], "ticket")) c.ticket = atoi(v);
        else if (!strcmp(a[i], "ems")) c.ems = atoi(v);
        else if (!strcmp(a[i], "cca")) c.cca = atoi(v);
        else if (!strcmp(a[i], "name")) c.name = v;
        else if (!strcmp(a[i], "year")) c.year = atoi(v);
        else if (!strcmp(a[i], "seed")) c.seed = strtoull(v, NULL, 10);
        else if (!strcmp(a[i], "keepkeys")) c.keep_skeys = atoi(v);
        else if (!strcmp(a[i], "psk")) c.psk = atoi(v);
        else if (!strcmp(a[i], "smaxed")) c.smaxed = atoi(v);
        else if (!strcmp(a[i], "dtls")) c.dtls = atoi(v);
    }
    int rc = sess_new(&c);
    if (rc == 0) { g_quiet = 1; flush_out(&g_c); g_quiet = 0; }
    printf("new:%d", rc);
}

static peer_t *side(const char *s) { return s[0] == 's' ? &g_s : &g_c; }
static int dirof(const char *s) { return s[0] == 's' ? 1 : 0; }   /* "s2c" -> 1, "c2s" -> 0 */
static int qcount(queue_t *q) { size_t off = 0, h = (size_t) SESS_RHL; int n = 0; while (off + h <= q->len) { size_t l = h + ((size_t) q->b[off+h-2] << 8) + q->b[off+h-1]; if (off + l > q->len) break; off += l; n++; } return n; }

static void run_cmd(char **a, int n) {
    if (n == 0) return;
    if (!strcmp(a[0], "new")) do_new(a + 1, n - 1);
    else if (!strcmp(a[0], "hs")) { pump(1); printf("hs:c="); print_snap(&g_c); printf(" s="); print_snap(&g_s); }
    else if (!strcmp(a[0], "pumpv")) { pump(0); }
    else if (!strcmp(a[0], "step") && n >= 2) {
        int k = n >= 3 ? atoi(a[2]) : 1, d = dirof(a[1]);
        for (int i = 0; i < k; i++) {
            if (!q_reclen(d ? &g_s2c : &g_c2s)) { printf("step:none"); break; }
            printf("step:%s pre=", d ? "c" : "s"); print_snap(d ? &g_c : &g_s); printf(" ");
            deliver_one(d, 0); printf("post="); print_snap(d ? &g_c : &g_s); printf(" ");
        }
    }
    else if (!strcmp(a[0], "stepdg") && n >= 2) {
        int k = n >= 3 ? atoi(a[2]) : 1, d = dirof(a[1]);
        for (int i = 0; i < k; i++) {
            if (!q_reclen(d ? &g_s2c : &g_c2s)) { printf("stepdg:none"); break; }
            printf("stepdg:%s pre=", d ? "c" : "s"); print_snap(d ? &g_c : &g_s); printf(" ");
            deliver_dgram(d); printf("post="); print_snap(d ? &g_c : &g_s); printf(" ");
        }
    }
#ifdef USE_DTLS
    else if (!strcmp(a[0], "resend") && n >= 2) {
        /* the application's retransmission timer fired: matrixDtlsGetOutdata with nothing pending rebuilds the last flight */
        peer_t *p = side(a[1]);
        printf("resend:%s pre=", a[1]); print_snap(p); printf(" ");
        if (p->ssl && (p->ssl->flags & SSL_FLAGS_DTLS)) { g_dtls_resend = 1; size_t t = flush_out(p); printf("n=%zu ", t); } else printf("n=- ");
        printf("post="); print_snap(p);
    }
#endif
    else if ((!strcmp(a[0], "inj") && n >= 3) || (!strcmp(a[0], "injc") && n >= 4)) {
        unsigned char *d; size_t l = unhex(a[2], &d); peer_t *p = side(a[1]);
        printf("inj:%s pre=", a[1]); print_snap(p); printf(" "); feed(p, d, l, n >= 4 ? (size_t) atoi(a[3]) : 0); printf("post="); print_snap(p); free(d);
    }
    else if (!strcmp(a[0], "app") && n >= 3) {
        unsigned char *d; size_t l = unhex(a[2], &d); peer_t *p = side(a[1]);
        int32 rc = p->ssl ? matrixSslEncodeToOutdata(p->ssl, d, (uint32) l) : -999;
        printf("app:%s pre=", a[1]); print_snap(p); printf(" rc=%s ", rc >= 0 ? "OK" : rcname(rc)); flush_out(p); free(d);
    }
    else if (!strcmp(a[0], "appq") && n >= 3) {
        /* like `app` but the encoded record stays in the out buffer (an application that has not got round to sending yet) */
        unsigned char *d; size_t l = unhex(a[2], &d); peer_t *p = side(a[1]);
        int32 rc = p->ssl ? matrixSslEncodeToOutdata(p->ssl, d, (uint32) l) : -999;
        printf("appq:%s rc=%s", a[1], rc >= 0 ? "OK" : rcname(rc)); free(d);
    }
    else if (!strcmp(a[0], "closure") && n >= 2) {
        peer_t *p = side(a[1]); int32 rc = p->ssl ? matrixSslEncodeClosureAlert(p->ssl) : -999;
        printf("closure:%s rc=%s ", a[1], rcname(rc)); flush_out(p); printf("post="); print_snap(p);
    }
    else if (!strcmp(a[0], "save") && n >= 3) {
        queue_t *q = dirof(a[1]) ? &g_s2c : &g_c2s; int s = atoi(a[2]) % NSLOT; size_t l = q_reclen(q);
        free(g_slot[s]); g_slot[s] = malloc(l + 1); memcpy(g_slot[s], q->b, l); g_slotlen[s] = l; printf("save:%zu", l);
        if (g_sdtls && l >= 13 && q->mh != q->mt) {     /* DTLS: the saved record's metadata (it may never be delivered in order) */
            rmeta_t m = q->m[q->mh % MQ]; unsigned char *t = q->b;
            printf("[o=%d i=%d s=%d l=%zu b=%02x%02x e=%d ep=%d sq=%lu dg=%d vr=%02x%02x]", t[0], m.inner, m.sealed, l - 13, l > 13 ? t[13] : 0, l > 14 ? t[14] : 0, m.early,
                   (t[3] << 8) | t[4], ((unsigned long) t[7] << 24) | ((unsigned long) t[8] << 16) | ((unsigned long) t[9] << 8) | t[10], m.dgend, t[1], t[2]);
        }
    }
    else if (!strcmp(a[0], "drop") && n >= 2) {
        queue_t *q = dirof(a[1]) ? &g_s2c : &g_c2s; int k = n >= 3 ? atoi(a[2]) : 1, i;
        for (i = 0; i < k; i++) { size_t l = q_reclen(q); if (!l) break; q_pop(q, l); q_meta_pop(q); } printf("drop:%d", i);
    }
    else if (!strcmp(a[0], "replay") && n >= 3) {
        int s = atoi(a[2]) % NSLOT; peer_t *p = side(a[1]);
        printf("replay:%s pre=", a[1]); print_snap(p); printf(" "); if (g_slot[s] && g_slotlen[s]) feed(p, g_slot[s], g_slotlen[s], 0); else printf("empty "); printf("post="); print_snap(p);
    }
    else if (!strcmp(a[0], "xor") && n >= 4) {
        queue_t *q = dirof(a[1]) ? &g_s2c : &g_c2s; size_t off = (size_t) atoi(a[2]); size_t l = q_reclen(q);
        if (off < l) { q->b[off] ^= (unsigned char) strtol(a[3], NULL, 16); printf("xor:ok"); } else printf("xor:range");
    }
    else if (!strcmp(a[0], "flight") && n >= 3) {
        /* deliver everything queued in a direction, cut into receive calls: all | bytes <k> | list a,b,c (cyclic) */
        int d = dirof(a[1]); queue_t *q = d ? &g_s2c : &g_c2s; peer_t *to = d ? &g_c : &g_s;
        size_t total = q->len; unsigned char *tmp = malloc(total + 1); memcpy(tmp, q->b, total); q->len = 0; q->mh = q->mt = 1024;
        int sizes[64], ns = 0;
        if (!strcmp(a[2], "all")) { sizes[ns++] = (int) (total ? total : 1); }
        else if (!strcmp(a[2], "bytes") && n >= 4) { sizes[ns++] = atoi(a[3]) > 0 ? atoi(a[3]) : 1; }
        else if (!strcmp(a[2], "list") && n >= 4) { ns = parse_list(a[3], sizes, 64); for (int i = 0; i < ns; i++) if (sizes[i] <= 0) sizes[i] = 1; }
        else { sizes[ns++] = (int) (total ? total : 1); }
        printf("flight:%s n=%zu calls: ", d ? "c" : "s", total);
        size_t off = 0; int ci = 0; g_callsep = 1;
        while (off < total) { size_t k = (size_t) sizes[ci++ % ns]; if (k > total - off) k = total - off; feed(to, tmp + off, k, 0); off += k;
                              if (!to->ssl || (to->ssl->flags & (SSL_FLAGS_ERROR | SSL_FLAGS_CLOSED))) { if (off < total) printf("[dead:%zu left] ", total - off); break; } }
        g_callsep = 0; free(tmp);
        printf("post="); print_snap(to);
    }
    else if (!strcmp(a[0], "forge") && n >= 4) {
        /* forge <side> <rectype> <hstype|0> <hex body> : the given side seals a record of arbitrary type/content with its CURRENT
           write state (a misbehaving authenticated peer); the record is appended to the wire queue like any other */
        peer_t *p = side(a[1]); int rt = atoi(a[2]), ht = atoi(a[3]); unsigned char *body; size_t bl = unhex(n >= 5 ? a[4] : "-", &body);
        unsigned char rec[20000]; int32 rl = -1; ssl_t *ssl = p->ssl;
        queue_t *q = p->is_server ? &g_s2c : &g_c2s;
        if (!ssl) { printf("forge:nil"); }
        else if (ACTV_VER(ssl, v_tls_1_3_any) && (ssl->flags & SSL_FLAGS_WRITE_SECURE)) {
            unsigned char pt[17000]; size_t ptl = 0;
            if (rt == SSL_RECORD_TYPE_HANDSHAKE && ht) { pt[0] = (unsigned char) ht; pt[1] = (unsigned char) (bl >> 16); pt[2] = (unsigned char) (bl >> 8); pt[3] = (unsigned char) bl; ptl = 4; }
            memcpy(pt + ptl, body, bl); ptl += bl; pt[ptl++] = (unsigned char) rt;
            ssl->outRecType = SSL_RECORD_TYPE_APPLICATION_DATA; ssl->outRecLen = (psSize_t) (ptl + 16);
            rec[0] = 23; rec[1] = 3; rec[2] = 3; rec[3] = (unsigned char) ((ptl + 16) >> 8); rec[4] = (unsigned char) (ptl + 16);
            if (ssl->encrypt(ssl, pt, rec + 5, (uint32) ptl) >= 0) { rl = (int32) (5 + ptl + 16); ilog_pop(p->is_server); q_meta_push(q, 23, rt, 1); }
        } else if (!ACTV_VER(ssl, v_tls_1_3_any)) {
            sslBuf_t out; unsigned char *c, *end, *es; uint8_t padLen; psSize_t ms;
            out.buf = out.start = out.end = rec; out.size = sizeof rec; c = out.end; end = rec + sizeof rec;
            ms = (psSize_t) (ssl->recordHeadLen + bl + ((rt == SSL_RECORD_TYPE_HANDSHAKE) ? ssl->hshakeHeadLen : 0));
            if (writeRecordHeader(ssl, (uint8_t) rt, (uint8_t) ht, &ms, &padLen, &es, end, &c) >= 0) {
                memcpy(c, body, bl); c += bl;
                if (encryptRecord(ssl, rt, ht, ms, padLen, es, &out, &c) >= 0) {
                    rl = (int32) (c - rec); q_meta_push(q, rt, rt, (ssl->flags & SSL_FLAGS_WRITE_SECURE) ? 1 : 0);
                }
            }
        } else {   /* TLS 1.3 before write keys: plaintext record */
            rec[0] = (unsigned char) rt; rec[1] = 3; rec[2] = 3; size_t off = 5;
            if (rt == SSL_RECORD_TYPE_HANDSHAKE && ht) { rec[5] = (unsigned char) ht; rec[6] = (unsigned char) (bl >> 16); rec[7] = (unsigned char) (bl >> 8); rec[8] = (unsigned char) bl; off = 9; }
            memcpy(rec + off, body, bl); off += bl; rec[3] = (unsigned char) ((off - 5) >> 8); rec[4] = (unsigned char) (off - 5);
            rl = (int32) off; q_meta_push(q, rt, rt, 0);
        }
        if (rl > 0) { q_push(q, rec, (size_t) rl); printf("forge:%d", rl); } else if (ssl) printf("forge:fail");
        free(body);
    }
    else if (!strcmp(a[0], "qinj") && n >= 4) {
        /* qinj <c2s|s2c> <head|tail> <hex record> : put a raw record on the wire queue (e.g. the middlebox-compatibility CCS a peer may send) */
        queue_t *q = dirof(a[1]) ? &g_s2c : &g_c2s; unsigned char *d; size_t l = unhex(a[3], &d);
        if (!strcmp(a[2], "head")) {
            if (q->len + l <= QCAP) { memmove(q->b + l, q->b, q->len); memcpy(q->b, d, l); q->len += l;
                q_meta_push_head(q, d[0], d[0], 0); }
        } else if (a[2][0] >= '0' && a[2][0] <= '9') {
            /* behind the first N records of the queue (e.g. the compatibility CCS between ClientHello and 0-RTT data) */
            int nrec = atoi(a[2]), k = 0; size_t off = 0, h = (size_t) SESS_RHL;
            while (k < nrec && off + h <= q->len) { size_t rl = h + ((size_t) q->b[off+h-2] << 8) + q->b[off+h-1]; if (off + rl > q->len) break; off += rl; k++; }
            if (q->len + l <= QCAP) {
                memmove(q->b + off + l, q->b + off, q->len - off); memcpy(q->b + off, d, l); q->len += l;
                for (unsigned i = q->mt; i > q->mh + (unsigned) k; i--) q->m[i % MQ] = q->m[(i - 1) % MQ];
                q->mt++; { rmeta_t *m = &q->m[(q->mh + (unsigned) k) % MQ]; m->outer = d[0]; m->inner = d[0]; m->sealed = 0; m->early = 0; m->dgend = 1; }
            }
        } else { q_push(q, d, l); q_meta_push(q, d[0], d[0], 0); }
        printf("qinj:%zu", l); free(d);
    }
#ifdef USE_TLS_1_2
    else if (!strcmp(a[0], "nullsh") && n >= 3) {
        /* nullsh <variant 0|1|2> <suite hex> : a key-less attacker answers the client's ClientHello with a ServerHello of its own
           (TLS 1.2, no extensions; session id: 0 = echo of what the client proposed (or 32 made-up bytes), 1 = empty, 2 = 32 made-up
           bytes) choosing the given suite.  Only public values are used. */
        peer_t *p = &g_c; ssl_t *ssl = p->ssl; int var = atoi(a[1]); unsigned suite = (unsigned) strtoul(a[2], NULL, 16);
        unsigned char m[128]; size_t o = 0, sl = 0; unsigned char sid[32];
        printf("nullsh:c pre="); print_snap(p); printf(" ");
        if (!ssl) { printf("nil "); }
        else {
            if (var == 0 && ssl->sessionIdLen > 0 && ssl->sessionIdLen <= 32) { sl = ssl->sessionIdLen; memcpy(sid, ssl->sessionId, sl); }
            else if (var == 1) sl = 0;
            else { sl = 32; for (size_t i = 0; i < 32; i++) sid[i] = (unsigned char) (0xA0 + i); }
            m[o++] = 22; m[o++] = 3; m[o++] = 3; o += 2;                    /* record header, length below */
            m[o++] = 2; o += 3;                                             /* ServerHello, length below */
            m[o++] = 3; m[o++] = 3;
            for (int i = 0; i < 32; i++) m[o++] = (unsigned char) (0x50 + i);   /* server random (not the downgrade sentinel) */
            m[o++] = (unsigned char) sl; memcpy(m + o, sid, sl); o += sl;
            m[o++] = (unsigned char) (suite >> 8); m[o++] = (unsigned char) suite; m[o++] = 0;
            m[3] = (unsigned char) ((o - 5) >> 8); m[4] = (unsigned char) (o - 5);
            m[6] = 0; m[7] = (unsigned char) ((o - 9) >> 8); m[8] = (unsigned char) (o - 9);
            feed(p, m, o, 0);
        }
        printf("post="); print_snap(p);
    }
    else if (!strcmp(a[0], "nullfin") && n >= 2) {
        /* nullfin <victim c|s> : the "secrets still at their initial value" attacker (cf. CVE-2014-0224): ChangeCipherSpec, then a
           Finished and one application record sealed under the keys that follow from an ALL-ZERO master secret and the two public
           randoms, the Finished computed over the victim's public transcript.  AES-GCM suites of TLS 1.2 only. */
        peer_t *p = side(a[1]); ssl_t *ssl = p->ssl; int klen = 0, sha384 = 0;
        printf("nullfin:%s pre=", a[1]); print_snap(p); printf(" ");
        if (ssl && ssl->cipher) switch (ssl->cipher->ident) { case 0x009c: case 0xc02f: case 0xc02b: klen = 16; break;
                                                               case 0x009d: case 0xc030: case 0xc02c: klen = 32; sha384 = 1; break; default: break; }
        if (!ssl) printf("nil ");
        else if ((ssl->flags & SSL_FLAGS_DTLS) || ACTV_VER(ssl, v_tls_1_3_any) || !klen) printf("skip:suite=%04x ", ssl->cipher ? ssl->cipher->ident : 0);
        else {
            static const unsigned char ccs[6] = { 20, 3, 3, 0, 1, 1 };
            unsigned char zero[48], seed[13 + 64 + 64], kb[2 * 32 + 8], *key, *iv, vd[12], hh[64], rec[128]; size_t hl;
            int to_client = !p->is_server;      /* the attacker plays the victim's peer */
            memset(zero, 0, sizeof zero);
            feed(p, ccs, sizeof ccs, 0);
            memcpy(seed, "key expansion", 13); memcpy(seed + 13, ssl->sec.serverRandom, 32); memcpy(seed + 45, ssl->sec.clientRandom, 32);
            prf2(zero, 48, seed, 13 + 64, kb, (psSize_t) (2 * klen + 8), sha384 ? CRYPTO_FLAGS_SHA3 : CRYPTO_FLAGS_SHA2);
            key = kb + (to_client ? klen : 0); iv = kb + 2 * klen + (to_client ? 4 : 0);
            if (sha384) { psSha384_t c; psSha384Cpy(&c, &ssl->sec.msgHashSha384); psSha384Final(&c, hh); hl = 48; }
            else { psSha256_t c; psSha256Cpy(&c, &ssl->sec.msgHashSha256); psSha256Final(&c, hh); hl = 32; }
            memcpy(seed, to_client ? "server finished" : "client finished", 15); memcpy(seed + 15, hh, hl);
            prf2(zero, 48, seed, (psSize_t) (15 + hl), vd, 12, sha384 ? CRYPTO_FLAGS_SHA3 : CRYPTO_FLAGS_SHA2);
            for (int k = 0; k < 2; k++) {       /* record 0: Finished; record 1: application data "forged" */
                unsigned char pt[16], nonce[12], aad[13], tag[16]; size_t pl; psAesGcm_t g;
                if (k == 0) { pt[0] = 20; pt[1] = 0; pt[2] = 0; pt[3] = 12; memcpy(pt + 4, vd, 12); pl = 16; } else { memcpy(pt, "forged", 6); pl = 6; }
                memset(aad, 0, 8); aad[7] = (unsigned char) k; aad[8] = k ? 23 : 22; aad[9] = 3; aad[10] = 3; aad[11] = 0; aad[12] = (unsigned char) pl;
                memcpy(nonce, iv, 4); memset(nonce + 4, 0, 8); nonce[11] = (unsigned char) k;
                rec[0] = aad[8]; rec[1] = 3; rec[2] = 3; rec[3] = 0; rec[4] = (unsigned char) (8 + pl + 16); memcpy(rec + 5, nonce + 4, 8);
                if (psAesInitGCM(&g, key, (uint8_t) klen) < 0) { printf("gcm-init-failed "); break; }
                psAesReadyGCM(&g, nonce, aad, 13); psAesEncryptGCM(&g, pt, rec + 13, (uint32_t) pl); psAesGetGCMTag(&g, 16, tag); psAesClearGCM(&g);
                memcpy(rec + 13 + pl, tag, 16);
                printf("%s ", k ? "[appdata]" : "[finished]");
                feed(p, rec, 13 + pl + 16, 0);
                if (!p->ssl || (p->ssl->flags & (SSL_FLAGS_ERROR | SSL_FLAGS_CLOSED))) break;
            }
        }
        printf("post="); print_snap(p);
    }
#endif
    else if (!strcmp(a[0], "rbmode") && n >= 2) { g_rbofsize = atoi(a[1]); printf("rbmode:%d", g_rbofsize); }
    else if (!strcmp(a[0], "seths") && n >= 3) { peer_t *p = side(a[1]); if (p->ssl) p->ssl->hsState = (uint8_t) atoi(a[2]); printf("seths:%d", atoi(a[2])); }
    else if (!strcmp(a[0], "tick") && n >= 2) { g_vtime += atol(a[1]); printf("tick:%ld", g_vtime); }
    else if (!strcmp(a[0], "sendchunk") && n >= 2) { g_sendchunk = atoi(a[1]); printf("sendchunk:%d", g_sendchunk); }
    else if (!strcmp(a[0], "wire")) printf("wire:c2s=%zu:%016llx,s2c=%zu:%016llx", g_wire_len[0], (unsigned long long) g_wire_hash[0], g_wire_len[1], (unsigned long long) g_wire_hash[1]);
    else if (!strcmp(a[0], "q")) printf("q:c2s=%d,s2c=%d", qcount(&g_c2s), qcount(&g_s2c));
    else if (!strcmp(a[0], "st")) { printf("st:c="); print_snap(&g_c); printf(" s="); print_snap(&g_s); }
    else printf("?%s", a[0]);
}

int main(void)
{
    if (matrixSslOpen() < 0) { printf("INITFAIL\n"); return 2; }
    while (next_case()) {
        int i = 0;
        while (i < g_ntok) {
            int j = i; while (j < g_ntok && strcmp(g_tok[j], ";") != 0) j++;
            run_cmd(g_tok + i, j - i);
            if (j < g_ntok) printf(" | ");
            i = j + 1;
        }
        printf("\n"); fflush(stdout);
    }
    return 0;
}
