/* h_sess: script interpreter over sess.h.  One scenario per input line; commands separated by " ; ".
   new k=v ...      create client+server (cv=3,4 sv=3,4 suite=c02f,... cauth=0|1 ccb=0|1|2 scb=0|1|2 key=rsa|ec
                    resume=0|1 ticket=0|1 name=<expected> year=<yyyy> seed=<n> cca=0|1|2 keepkeys=0|1)
   hs               pump records both ways until quiescent (quiet), print completion of each side
   pumpv            same but verbose (every event)
   step <c2s|s2c> [n]   deliver the next n records (default 1) one at a time, print receiver events
   inj <c|s> <hex>  feed raw bytes to a side (attacker), print events
   injc <c|s> <hex> <chunk>   same, split into chunks of <chunk> bytes
   app <c|s> <hex>  application send (matrixSslEncodeToOutdata), print rc, flush to the wire
   closure <c|s>    matrixSslEncodeClosureAlert, print rc, flush
   save <c2s|s2c> <slot>      copy the head record of the queue into a slot (does not remove it)
   drop <c2s|s2c> [n]         remove n head records
   replay <c|s> <slot>        feed the saved record to a side
   xor <c2s|s2c> <offset> <hexbyte>  edit head record in the queue
   q                print queue lengths (records)
   st               print snapshot of both sides
   DTLS (`new ... dtls=1`; cv/sv minor 3 = DTLS 1.2, 2 = DTLS 1.0): the wire queues hold DTLS records (13-byte headers); `step`
   delivers ONE record as a datagram of its own, `stepdg <c2s|s2c> [n]` delivers whole datagrams as the sender emitted them,
   `resend <c|s>` is the application's retransmission timeout (matrixDtlsGetOutdata with nothing pending rebuilds the last flight);
   metadata of DTLS records carries ep=<epoch> sq=<sequence number> dg=<last record of its datagram> vr=<record version>, snapshots of DTLS
   sessions carry the suffix dt=1,xe=<expected epoch>,pc=<parsedCCS>,ax=<appDataExch>,lr=<last rsn>,bm=<window bitmap>,fd=,ol=,we=
*/
#include "sess.h"

#define NSLOT 16
static unsigned char *g_slot[NSLOT]; static size_t g_slotlen[NSLOT];

static int parse_list(const char *s, int *out, int max) { int n = 0; while (*s && n < max) { out[n++] = atoi(s); while (*s && *s != ',') s++; if (*s) s++; } return n; }

static void do_new(char **a, int n) {
    scfg_t c; memset(&c, 0, sizeof c); c.cca = 1; c.seed = 1;
    for (int i = 0; i < n; i++) {
        char *eq = strchr(a[i], '='); if (!eq) continue; *eq = 0; char *v = eq + 1;
        if (!strcmp(a[i], "cv")) c.ncver = parse_list(v, c.cver, 4);
        else if (!strcmp(a[i], "sv")) c.nsver = parse_list(v, c.sver, 4);
        else if (!strcmp(a[i], "suite")) { while (*v && c.nsuites < 8) { c.suites[c.nsuites++] = (psCipher16_t) strtol(v, &v, 16); if (*v == ',') v++; } }
        else if (!strcmp(a[i], "cauth")) c.cauth = atoi(v);
        else if (!strcmp(a[i], "ccb")) c.ccb = atoi(v);
        else if (!strcmp(a[i], "scb")) c.scb = atoi(v);
        else if (!strcmp(a[i], "key")) c.key = !strcmp(v, "ec") ? 1 : (!strcmp(v, "rsa4096") ? 2 : 0);
        else if (!strcmp(a[i], "resume")) c.resume = atoi(v);
        else if (!strcmp(a[i], "ticket")) c.ticket = atoi(v);
        else if (!strcmp(a[i], "ems")) c.ems = atoi(v);
        else if (!strcmp(a[i], "cca")) c.cca = atoi(v);
        else if (!strcmp(a[i], "name")) c.name = v;
        else if (!strcmp(a[i], "year")) c.year = atoi(v);
        else if (!strcmp(a[i], "seed")) c.seed = strtoull(v, NULL, 10);
        else if (!strcmp(a[i], "keepkeys")) c.keep_skeys = atoi(v);
        else if (!strcmp(a[i], "psk")) c.psk = atoi(v);
        else if (!strcmp(a[i], "smaxed")) c.smaxed = atoi(v);
        else if (!strcmp(a[i], "dtls")) c.dtls = atoi(v);
    }
    int rc = sess_new(&c);
    if (rc == 0) { g_quiet = 1; flush_out(&g_c); g_quiet = 0; }
    printf("new:%d", rc);
}

static peer_t *side(const char *s) { return s[0] == 's' ? &g_s : &g_c; }
static int dirof(const char *s) { return s[0] == 's' ? 1 : 0; }   /* "s2c" -> 1, "c2s" -> 0 */
static int qcount(queue_t *q) { size_t off = 0, h = (size_t) SESS_RHL; int n = 0; while (off + h <= q->len) { size_t l = h + ((size_t) q->b[off+h-2] << 8) + q->b[off+h-1]; if (off + l > q->len) break; off += l; n++; } return n; }

static void run_cmd(char **a, int n) {
    if (n == 0) return;
    if (!strcmp(a[0], "new")) do_new(a + 1, n - 1);
    else if (!strcmp(a[0], "hs")) { pump(1); printf("hs:c="); print_snap(&g_c); printf(" s="); print_snap(&g_s); }
    else if (!strcmp(a[0], "pumpv")) { pump(0); }
    else if (!strcmp(a[0], "step") && n >= 2) {
        int k = n >= 3 ? atoi(a[2]) : 1, d = dirof(a[1]);
        for (int i = 0; i < k; i++) {
            if (!q_reclen(d ? &g_s2c : &g_c2s)) { printf("step:none"); break; }
            printf("step:%s pre=", d ? "c" : "s"); print_snap(d ? &g_c : &g_s); printf(" ");
            deliver_one(d, 0); printf("post="); print_snap(d ? &g_c : &g_s); printf(" ");
        }
    }
    else if (!strcmp(a[0], "stepdg") && n >= 2) {
        int k = n >= 3 ? atoi(a[2]) : 1, d = dirof(a[1]);
        for (int i = 0; i < k; i++) {
            if (!q_reclen(d ? &g_s2c : &g_c2s)) { printf("stepdg:none"); break; }
            printf("stepdg:%s pre=", d ? "c" : "s"); print_snap(d ? &g_c : &g_s); printf(" ");
            deliver_dgram(d); printf("post="); print_snap(d ? &g_c : &g_s); printf(" ");
        }
    }
#ifdef USE_DTLS
    else if (!strcmp(a[0], "resend") && n >= 2) {
        /* the application's retransmission timer fired: matrixDtlsGetOutdata with nothing pending rebuilds the last flight */
        peer_t *p = side(a[1]);
        printf("resend:%s pre=", a[1]); print_snap(p); printf(" ");
        if (p->ssl && (p->ssl->flags & SSL_FLAGS_DTLS)) { g_dtls_resend = 1; size_t t = flush_out(p); printf("n=%zu ", t); } else printf("n=- ");
        printf("post="); print_snap(p);
    }
#endif
    else if ((!strcmp(a[0], "inj") && n >= 3) || (!strcmp(a[0], "injc") && n >= 4)) {
        unsigned char *d; size_t l = unhex(a[2], &d); peer_t *p = side(a[1]);
        printf("inj:%s pre=", a[1]); print_snap(p); printf(" "); feed(p, d, l, n >= 4 ? (size_t) atoi(a[3]) : 0); printf("post="); print_snap(p); free(d);
    }
    else if (!strcmp(a[0], "app") && n >= 3) {
        unsigned char *d; size_t l = unhex(a[2], &d); peer_t *p = side(a[1]);
        int32 rc = p->ssl ? matrixSslEncodeToOutdata(p->ssl, d, (uint32) l) : -999;
        printf("app:%s pre=", a[1]); print_snap(p); printf(" rc=%s ", rc >= 0 ? "OK" : rcname(rc)); flush_out(p); free(d);
    }
    else if (!strcmp(a[0], "closure") && n >= 2) {
        peer_t *p = side(a[1]); int32 rc = p->ssl ? matrixSslEncodeClosureAlert(p->ssl) : -999;
        printf("closure:%s rc=%s ", a[1], rcname(rc)); flush_out(p); printf("post="); print_snap(p);
    }
    else if (!strcmp(a[0], "save") && n >= 3) {
        queue_t *q = dirof(a[1]) ? &g_s2c : &g_c2s; int s = atoi(a[2]) % NSLOT; size_t l = q_reclen(q);
        free(g_slot[s]); g_slot[s] = malloc(l + 1); memcpy(g_slot[s], q->b, l); g_slotlen[s] = l; printf("save:%zu", l);
        if (g_sdtls && l >= 13 && q->mh != q->mt) {     /* DTLS: the saved record's metadata (it may never be delivered in order) */
            rmeta_t m = q->m[q->mh % MQ]; unsigned char *t = q->b;
            printf("[o=%d i=%d s=%d l=%zu b=%02x%02x e=%d ep=%d sq=%lu dg=%d vr=%02x%02x]", t[0], m.inner, m.sealed, l - 13, l > 13 ? t[13] : 0, l > 14 ? t[14] : 0, m.early,
                   (t[3] << 8) | t[4], ((unsigned long) t[7] << 24) | ((unsigned long) t[8] << 16) | ((unsigned long) t[9] << 8) | t[10], m.dgend, t[1], t[2]);
        }
    }
    else if (!strcmp(a[0], "drop") && n >= 2) {
        queue_t *q = dirof(a[1]) ? &g_s2c : &g_c2s; int k = n >= 3 ? atoi(a[2]) : 1, i;
        for (i = 0; i < k; i++) { size_t l = q_reclen(q); if (!l) break; q_pop(q, l); q_meta_pop(q); } printf("drop:%d", i);
    }
    else if (!strcmp(a[0], "replay") && n >= 3) {
        int s = atoi(a[2]) % NSLOT; peer_t *p = side(a[1]);
        printf("replay:%s pre=", a[1]); print_snap(p); printf(" "); if (g_slot[s] && g_slotlen[s]) feed(p, g_slot[s], g_slotlen[s], 0); else printf("empty "); printf("post="); print_snap(p);
    }
    else if (!strcmp(a[0], "xor") && n >= 4) {
        queue_t *q = dirof(a[1]) ? &g_s2c : &g_c2s; size_t off = (size_t) atoi(a[2]); size_t l = q_reclen(q);
        if (off < l) { q->b[off] ^= (unsigned char) strtol(a[3], NULL, 16); printf("xor:ok"); } else printf("xor:range");
    }
    else if (!strcmp(a[0], "flight") && n >= 3) {
        /* deliver everything queued in a direction, cut into receive calls: all | bytes <k> | list a,b,c (cyclic) */
        int d = dirof(a[1]); queue_t *q = d ? &g_s2c : &g_c2s; peer_t *to = d ? &g_c : &g_s;
        size_t total = q->len; unsigned char *tmp = malloc(total + 1); memcpy(tmp, q->b, total); q->len = 0; q->mh = q->mt = 1024;
        int sizes[64], ns = 0;
        if (!strcmp(a[2], "all")) { sizes[ns++] = (int) (total ? total : 1); }
        else if (!strcmp(a[2], "bytes") && n >= 4) { sizes[ns++] = atoi(a[3]) > 0 ? atoi(a[3]) : 1; }
        else if (!strcmp(a[2], "list") && n >= 4) { ns = parse_list(a[3], sizes, 64); for (int i = 0; i < ns; i++) if (sizes[i] <= 0) sizes[i] = 1; }
        else { sizes[ns++] = (int) (total ? total : 1); }
        printf("flight:%s n=%zu calls: ", d ? "c" : "s", total);
        size_t off = 0; int ci = 0; g_callsep = 1;
        while (off < total) { size_t k = (size_t) sizes[ci++ % ns]; if (k > total - off) k = total - off; feed(to, tmp + off, k, 0); off += k;
                              if (!to->ssl || (to->ssl->flags & (SSL_FLAGS_ERROR | SSL_FLAGS_CLOSED))) { if (off < total) printf("[dead:%zu left] ", total - off); break; } }
        g_callsep = 0; free(tmp);
        printf("post="); print_snap(to);
    }
    else if (!strcmp(a[0], "forge") && n >= 4) {
        /* forge <side> <rectype> <hstype|0> <hex body> : the given side seals a record of arbitrary type/content with its CURRENT
           write state (a misbehaving authenticated peer); the record is appended to the wire queue like any other */
        peer_t *p = side(a[1]); int rt = atoi(a[2]), ht = atoi(a[3]); unsigned char *body; size_t bl = unhex(n >= 5 ? a[4] : "-", &body);
        unsigned char rec[20000]; int32 rl = -1; ssl_t *ssl = p->ssl;
        queue_t *q = p->is_server ? &g_s2c : &g_c2s;
        if (!ssl) { printf("forge:nil"); }
        else if (ACTV_VER(ssl, v_tls_1_3_any) && (ssl->flags & SSL_FLAGS_WRITE_SECURE)) {
            unsigned char pt[17000]; size_t ptl = 0;
            if (rt == SSL_RECORD_TYPE_HANDSHAKE && ht) { pt[0] = (unsigned char) ht; pt[1] = (unsigned char) (bl >> 16); pt[2] = (unsigned char) (bl >> 8); pt[3] = (unsigned char) bl; ptl = 4; }
            memcpy(pt + ptl, body, bl); ptl += bl; pt[ptl++] = (unsigned char) rt;
            ssl->outRecType = SSL_RECORD_TYPE_APPLICATION_DATA; ssl->outRecLen = (psSize_t) (ptl + 16);
            rec[0] = 23; rec[1] = 3; rec[2] = 3; rec[3] = (unsigned char) ((ptl + 16) >> 8); rec[4] = (unsigned char) (ptl + 16);
            if (ssl->encrypt(ssl, pt, rec + 5, (uint32) ptl) >= 0) { rl = (int32) (5 + ptl + 16); ilog_pop(p->is_server); q_meta_push(q, 23, rt, 1); }
        } else if (!ACTV_VER(ssl, v_tls_1_3_any)) {
            sslBuf_t out; unsigned char *c, *end, *es; uint8_t padLen; psSize_t ms;
            out.buf = out.start = out.end = rec; out.size = sizeof rec; c = out.end; end = rec + sizeof rec;
            ms = (psSize_t) (ssl->recordHeadLen + bl + ((rt == SSL_RECORD_TYPE_HANDSHAKE) ? ssl->hshakeHeadLen : 0));
            if (writeRecordHeader(ssl, (uint8_t) rt, (uint8_t) ht, &ms, &padLen, &es, end, &c) >= 0) {
                memcpy(c, body, bl); c += bl;
                if (encryptRecord(ssl, rt, ht, ms, padLen, es, &out, &c) >= 0) {
                    rl = (int32) (c - rec); q_meta_push(q, rt, rt, (ssl->flags & SSL_FLAGS_WRITE_SECURE) ? 1 : 0);
                }
            }
        } else {   /* TLS 1.3 before write keys: plaintext record */
            rec[0] = (unsigned char) rt; rec[1] = 3; rec[2] = 3; size_t off = 5;
            if (rt == SSL_RECORD_TYPE_HANDSHAKE && ht) { rec[5] = (unsigned char) ht; rec[6] = (unsigned char) (bl >> 16); rec[7] = (unsigned char) (bl >> 8); rec[8] = (unsigned char) bl; off = 9; }
            memcpy(rec + off, body, bl); off += bl; rec[3] = (unsigned char) ((off - 5) >> 8); rec[4] = (unsigned char) (off - 5);
            rl = (int32) off; q_meta_push(q, rt, rt, 0);
        }
        if (rl > 0) { q_push(q, rec, (size_t) rl); printf("forge:%d", rl); } else if (ssl) printf("forge:fail");
        free(body);
    }
    else if (!strcmp(a[0], "qinj") && n >= 4) {
        /* qinj <c2s|s2c> <head|tail> <hex record> : put a raw record on the wire queue (e.g. the middlebox-compatibility CCS a peer may send) */
        queue_t *q = dirof(a[1]) ? &g_s2c : &g_c2s; unsigned char *d; size_t l = unhex(a[3], &d);
        if (!strcmp(a[2], "head")) {
            if (q->len + l <= QCAP) { memmove(q->b + l, q->b, q->len); memcpy(q->b, d, l); q->len += l;
                q_meta_push_head(q, d[0], d[0], 0); }
        } else { q_push(q, d, l); q_meta_push(q, d[0], d[0], 0); }
        printf("qinj:%zu", l); free(d);
    }
    else if (!strcmp(a[0], "seths") && n >= 3) { peer_t *p = side(a[1]); if (p->ssl) p->ssl->hsState = (uint8_t) atoi(a[2]); printf("seths:%d", atoi(a[2])); }
    else if (!strcmp(a[0], "tick") && n >= 2) { g_vtime += atol(a[1]); printf("tick:%ld", g_vtime); }
    else if (!strcmp(a[0], "sendchunk") && n >= 2) { g_sendchunk = atoi(a[1]); printf("sendchunk:%d", g_sendchunk); }
    else if (!strcmp(a[0], "wire")) printf("wire:c2s=%zu:%016llx,s2c=%zu:%016llx", g_wire_len[0], (unsigned long long) g_wire_hash[0], g_wire_len[1], (unsigned long long) g_wire_hash[1]);
    else if (!strcmp(a[0], "q")) printf("q:c2s=%d,s2c=%d", qcount(&g_c2s), qcount(&g_s2c));
    else if (!strcmp(a[0], "st")) { printf("st:c="); print_snap(&g_c); printf(" s="); print_snap(&g_s); }
    else printf("?%s", a[0]);
}

int main(void)
{
    if (matrixSslOpen() < 0) { printf("INITFAIL\n"); return 2; }
    while (next_case()) {
        int i = 0;
        while (i < g_ntok) {
            int j = i; while (j < g_ntok && strcmp(g_tok[j], ";") != 0) j++;
            run_cmd(g_tok + i, j - i);
            if (j < g_ntok) printf(" | ");
            i = j + 1;
        }
        printf("\n"); fflush(stdout);
    }
    return 0;
}
