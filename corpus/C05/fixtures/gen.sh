#!/bin/bash
# One-time generation of the 3-level chain used by harness/h_names.c (openssl CLI; committed output, not run by checks).
set -e
openssl req -x509 -newkey rsa:2048 -nodes -keyout root.key -out root.pem -sha256 -days 9500 -subj "/CN=Verif C05 Root" \
  -addext "basicConstraints=critical,CA:TRUE" -addext "keyUsage=critical,keyCertSign,cRLSign" -set_serial 1 \
  -not_before 20200101000000Z -not_after 20451231000000Z 2>/dev/null || \
openssl req -x509 -newkey rsa:2048 -nodes -keyout root.key -out root.pem -sha256 -days 9500 -subj "/CN=Verif C05 Root" \
  -addext "basicConstraints=critical,CA:TRUE" -addext "keyUsage=critical,keyCertSign,cRLSign"
openssl req -newkey rsa:2048 -nodes -keyout inter.key -out inter.csr -subj "/CN=ca.example.com"
printf "basicConstraints=critical,CA:TRUE\nkeyUsage=critical,keyCertSign,cRLSign\nsubjectAltName=DNS:ca.example.com\n" > inter.ext
openssl x509 -req -in inter.csr -CA root.pem -CAkey root.key -set_serial 2 -sha256 -days 9400 -extfile inter.ext -out inter.pem
openssl req -newkey rsa:2048 -nodes -keyout leaf.key -out leaf.csr -subj "/CN=leaf.example.com"
printf "basicConstraints=CA:FALSE\nkeyUsage=digitalSignature,keyEncipherment\nsubjectAltName=DNS:leaf.example.com\n" > leaf.ext
openssl x509 -req -in leaf.csr -CA inter.pem -CAkey inter.key -set_serial 3 -sha256 -days 9300 -extfile leaf.ext -out leaf.pem
for c in root inter leaf; do openssl x509 -in $c.pem -outform DER -out $c.der; done
rm -f *.csr *.ext *.srl
