#!/bin/bash
# Run once after a fresh restore (offline): regenerate coq/Gen from /repo, full Coq build (.vo, never -vos).
set -e
cd "$(dirname "$0")"
B=/var/tmp/mv-setup.$$
trap 'rm -rf "$B"' EXIT
tools/build_repo.sh "$B" plain
for g in tools/srcgen/*.sh; do VERIF_BUILD="$B" bash "$g"; done
for g in tools/srcgen/gen_*.py; do [ -e "$g" ] && VERIF_BUILD="$B" VERIF_REPO=/repo python3 "$g"; done
mkdir -p ocaml/gen evidence replays
tools/mkproject.sh; cd coq
coq_makefile -f _CoqProject -o Makefile.coq
timeout 7200 make -f Makefile.coq -k -j16 2>&1 | grep -v '^COQC\|^COQDEP\|Closed under\|^Axioms:\|^ *$' | tail -40 || true
echo "setup done"
