open M_c09
(*#include conv*)
(* C09 model driver: same case lines as harness/h_asn.c, same canonical result lines.
   A model [Fault] prints FAULT (the sanitizer build of the library must die on that case),
   [OutOfFuel] prints OUTOFFUEL (never expected). *)
let str_z (x : z) = string_of_int (int_of_z x)
let str_n (x : n) = string_of_int (int_of_n x)
let show (r : 'a res) (f : 'a -> string) : string =
  match r with
  | Ok a -> f a
  | Err rc -> "rc=" ^ str_z rc
  | Fault -> "FAULT"
  | OutOfFuel -> "OUTOFFUEL"
let zero = n_of_int 0
let len_res start r = show r (fun ((rc, len), c') -> Printf.sprintf "rc=%s len=%s adv=%d" (str_z rc) (str_n len) (int_of_n c' - start))
let len16_res r = show r (fun (len, c') -> Printf.sprintf "rc=0 len=%s adv=%d" (str_n len) (int_of_n c'))
let gn_entry (g : gname) : string =
  let id = int_of_n g.g_id and dl = int_of_n g.g_len in
  let blk = List.map int_of_n g.g_buf in
  let alloc = List.length blk in
  let term = alloc > dl && List.nth blk dl = 0 in
  let data = List.filteri (fun i _ -> i < dl) g.g_buf in
  let strlen = let rec go i = function [] -> i | x :: r -> if x = 0 then i else go (i + 1) r in go 0 blk in
  Printf.sprintf "%d:%d:%s:T%d:%s:%s" id dl (hex_of_bytes data) (b2i term) (hex_of_bytes g.g_oid)
    (if term && (id = 1 || id = 2 || id = 6) then "S" ^ string_of_int strlen else "S-")
let dn_tag (id : int) = match id with 6 -> "C" | 8 -> "ST" | 10 -> "O" | 11 -> "OU" | 46 -> "DNQ" | 3 -> "CN" | 5 -> "SN" | 25 -> "DC" | _ -> "X" ^ string_of_int id
let dn_item (a : dnattr) : string =
  let len = int_of_n a.d_len in
  let blk = List.map int_of_n a.d_str in
  let alloc = List.length blk in
  let term = len >= 2 && len <= alloc && List.nth blk (len - 1) = 0 && List.nth blk (len - 2) = 0 in
  Printf.sprintf "%s=%d:%d:T%d:%s" (dn_tag (int_of_n a.d_id)) (int_of_n a.d_type) len (b2i term)
    (if len <= alloc then hex_of_bytes (List.filteri (fun i _ -> i < len) a.d_str) else "?")
(* canonical order of the harness: C ST O OU* DNQ CN SN DC* ; single-valued = last one wins,
   OU / DC lists are pushed to the front (newest first) *)
let dn_line (l : dnattr list) : string =
  let ids = List.map (fun a -> int_of_n a.d_id) l in
  let last id = List.fold_left (fun acc a -> if int_of_n a.d_id = id then Some a else acc) None l in
  let all id = List.rev (List.filter (fun a -> int_of_n a.d_id = id) l) in
  let one id = match last id with Some a -> [a] | None -> [] in
  ignore ids;
  String.concat "" (List.map (fun a -> " " ^ dn_item a) (one 6 @ one 8 @ one 10 @ all 11 @ one 46 @ one 3 @ one 5 @ all 25))
let () = iter_lines (fun l ->
  match split_ws l with
  | ["len32"; indef; h] -> let b = bytes_of_hex h in len_res 0 (getAsnLength32 b zero (lenN b) (indef <> "0"))
  | ["seq32"; indef; h] -> let b = bytes_of_hex h in len_res 0 (getAsnSequence32 b zero (lenN b) (indef <> "0"))
  | ["set32"; indef; h] -> let b = bytes_of_hex h in len_res 0 (getAsnSet32 b zero (lenN b) (indef <> "0"))
  | ["len16"; h] -> let b = bytes_of_hex h in len16_res (getAsnLength b zero (lenN b))
  | ["seq16"; h] -> let b = bytes_of_hex h in len16_res (getAsnSequence b zero (lenN b))
  | ["set16"; h] -> let b = bytes_of_hex h in len16_res (getAsnSet b zero (lenN b))
  | ["int"; h] -> let b = bytes_of_hex h in show (getAsnInteger b zero (lenN b)) (fun (v, c') -> Printf.sprintf "rc=0 val=%s adv=%s" (str_z v) (str_n c'))
  | ["enum"; h] -> let b = bytes_of_hex h in show (getAsnEnumerated b zero (lenN b)) (fun (v, c') -> Printf.sprintf "rc=0 val=%s adv=%s" (str_z v) (str_n c'))
  | ["enum_unfixed"; h] -> let b = bytes_of_hex h in show (getAsnEnumerated_unfixed b zero (lenN b)) (fun (v, c') -> Printf.sprintf "rc=0 val=%s adv=%s" (str_z v) (str_n c'))
  | ["oid"; chk; h] -> let b = bytes_of_hex h in show (getAsnOID b zero (lenN b) (chk <> "0")) (fun ((_, pl), c') -> Printf.sprintf "rc=0 plen=%s adv=%s" (str_n pl) (str_n c'))
  | ["oidcopy"; dl; h] ->
      (* asnCopyOid(der, derlen, oid) into a 32-byte block pre-filled with 0xaa *)
      let b = bytes_of_hex h in
      show (asnCopyOid b (lenN b) zero (n_of_int (int_of_string dl))) (fun (ret, w) ->
        let wl = List.map int_of_n w in
        let full = wl @ List.init (max 0 (32 - List.length wl)) (fun _ -> 0xaa) in
        Printf.sprintf "ret=%s oid=%s" (str_n ret) (String.concat "" (List.map (Printf.sprintf "%02x") full)))
  | ["algid"; h] -> let b = bytes_of_hex h in show (getAsnAlgorithmIdentifier b zero (lenN b)) (fun ((_, pl), c') -> Printf.sprintf "rc=0 plen=%s adv=%s" (str_n pl) (str_n c'))
  | ["taglen"; h] -> let b = bytes_of_hex h in show (getAsnTagLenUnsafe b (lenN b) zero) (fun v -> "len=" ^ str_n v)
  | "gn" :: len :: h :: _ ->
      let b = bytes_of_hex h in
      (* the caller (getExplicitExtensions, x509.c 4293) obtained len from getAsnSequence(&p, extEnd - p, &len),
         which refuses a SEQUENCE longer than the remaining extension bytes *)
      if int_of_string len > List.length b then "fail" else
      (match parse_general_names b (lenN b) zero (n_of_int (int_of_string len)) (z_of_int (-1)) with
       | Ok (names, p) -> Printf.sprintf "ok p=%s n=%d%s" (str_n p) (List.length names) (String.concat "" (List.map (fun g -> " " ^ gn_entry g) names))
       | Err _ -> "fail" | Fault -> "FAULT" | OutOfFuel -> "OUTOFFUEL")
  | "crlrev" :: glen :: h :: _ ->
      (* the revoked-certificates loop of psX509ParseCRL: buf = from the first entry to the end of the CRL *)
      let b = bytes_of_hex h in
      if int_of_string glen > List.length b then "fail" else       (* the caller's getAsnSequence32 refuses it *)
      (match crl_revoked b (lenN b) zero (n_of_int (int_of_string glen)) with
       | Ok (serials, p) ->
           let l = if serials = [] then [[]] else serials in        (* the list head is allocated before the loop *)
           Printf.sprintf "ok p=%s n=%d%s" (str_n p) (List.length l) (String.concat "" (List.map (fun x -> " " ^ hex_of_bytes x) l))
       | Err _ -> "fail" | Fault -> "FAULT" | OutOfFuel -> "OUTOFFUEL")
  | "gn_unfixed" :: len :: h :: _ ->
      let b = bytes_of_hex h in
      (match parse_general_names_unfixed b (lenN b) zero (n_of_int (int_of_string len)) (z_of_int (-1)) with
       | Ok (names, _) -> Printf.sprintf "ok n=%d%s" (List.length names) (String.concat "" (List.map (fun g -> " " ^ gn_entry g) names))
       | Err _ -> "fail" | Fault -> "FAULT" | OutOfFuel -> "OUTOFFUEL")
  | ["dn"; h] ->
      let b = bytes_of_hex h in
      (* the harness cuts the buffer at the end of the Name SEQUENCE (when its header parses) *)
      let n = List.length b in
      let b = (if n <= 0xFFFF then match getAsnSequence b zero (lenN b) with
                 | Ok (sl, p) -> List.filteri (fun i _ -> i < int_of_n p + int_of_n sl) b
                 | _ -> b else b) in
      show (dn_attributes b zero (n_of_int (List.length b land 0xFFFF))) (fun (l, p) -> Printf.sprintf "ok adv=%s%s" (str_n p) (dn_line l))
  | ["b64"; cap; h] ->
      let b = bytes_of_hex h in
      show (b64_decode b (lenN b) (n_of_int (List.length b land 0xFFFF)) (n_of_int (int_of_string cap land 0xFFFF))) (fun o -> "ok " ^ hex_of_bytes o)
  | ["pemchk"; ty; h] ->
      let b = bytes_of_hex h in
      show (pem_check_ok b (lenN b) (n_of_int (int_of_string ty))) (fun r -> match r with None -> "no" | Some (s, e) -> Printf.sprintf "ok s=%s e=%s" (str_n s) (str_n e))
  | ["pempw"; pw; h] ->
      let b = bytes_of_hex h in
      show (pem_decode_pw (pw <> "NULL") b (lenN b)) (fun ((k, iv), out) ->
        let k = int_of_n k in
        Printf.sprintf "ok k=%d iv=%s len=%d d=%s" k (hex_of_bytes iv) (List.length out) (if k = 0 then hex_of_bytes out else "?"))
  | ["pemdec"; h] -> let b = bytes_of_hex h in show (pem_decode b (lenN b)) (fun o -> "ok " ^ hex_of_bytes o)
  | ["pemlist"; h] ->
      let b = bytes_of_hex h in
      show (pem_cert_list b (lenN b)) (fun l -> Printf.sprintf "ok n=%d%s" (List.length l) (String.concat "" (List.map (fun x -> " " ^ hex_of_bytes x) l)))
  | _ -> "BADCASE")
