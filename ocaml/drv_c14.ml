open M_c14
(*#include conv*)
(* Model side of harness/h_cache.c "c" lines (see the command list there): same tokens in, same canonical
   text out.  Id/ticket banks, idspec/tspec editing and the toy cipher/MAC live here (they are
   harness conveniences, not library code); every library call goes through the extracted model. *)

let hexn (l : n list) : string = hex_of_bytes l
let rec take k l = if k <= 0 then [] else match l with [] -> [] | x :: r -> x :: take (k - 1) r
let rec drop k l = if k <= 0 then l else match l with [] -> [] | _ :: r -> drop (k - 1) r
let rep k b = List.init k (fun _ -> n_of_int b)
let ints (l : n list) = List.map int_of_n l
let ofints l = List.map n_of_int l
let pad32 l = take 32 (l @ rep 32 0)

(* ---- toy primitives, identical to the TOYCRYPTO wrappers of h_cache.c *)
let toy_crypt (key : n list) (iv : n list) (data : n list) : n list =
  let k = Array.of_list (ints key) and v = Array.of_list (ints iv) in
  let kl = max 1 (Array.length k) in
  ofints (List.mapi (fun i b -> b lxor (if Array.length k = 0 then 0 else k.(i mod kl)) lxor v.(i mod 16) lxor (i land 0xff)) (ints data))
let toy_mac (key : n list) (msg : n list) : n list =
  let k = Array.of_list (ints key) in
  let s = Array.init 32 (fun i -> if i < Array.length k then k.(i) else 0x36) in
  List.iteri (fun pos b -> let p = pos mod 32 in
    s.(p) <- (s.(p) * 31 + b + (pos land 0xff) + s.((p + 1) mod 32)) land 0xff) (ints msg);
  for r = 0 to 4 * 32 - 1 do let p = r mod 32 in s.(p) <- (s.(p) * 31 + 0x5c + s.((p + 1) mod 32)) land 0xff done;
  ofints (Array.to_list s)
let avail (id : z) : bool = List.exists (fun x -> int_of_z x = int_of_z id) k_suites_rsa_tls12

(* ---- canonical dumps *)
let cipher_s = function None -> "N" | Some id -> Printf.sprintf "%04x" (int_of_z id)
let hex4 l = hexn (take 4 l)
let dump_conn name (c : conn) =
  Printf.sprintf " %c{%d:%s:%s%s%s:%s:%s:t%d:%s:q%d:h%d}" name (int_of_z c.c_sidlen) (hexn (pad32 c.c_sid))
    (if c.c_resumed then "R" else "") (if c.c_closed then "C" else "") (if c.c_error then "E" else "")
    (cipher_s c.c_cipher) (hex4 c.c_ms) (int_of_z c.c_tstate) (if int_of_z c.c_tstate < 0 then "-" else hex4 c.c_tms)
    (int_of_z c.c_reqems) (int_of_z c.c_ref)
let all_zero l = List.for_all (fun x -> int_of_n x = 0) l
let dump_table (st : state) =
  let b = Buffer.create 256 in
  Buffer.add_string b " T{";
  List.iteri (fun i (e : entry) ->
    if not (e.e_cipher = None && int_of_z e.e_inuse = 0 && all_zero (drop 4 e.e_id) && all_zero e.e_ms) then
      Buffer.add_string b (Printf.sprintf "%d:%d:%s:%d.%d:%d:%d:%s:%s " i (int_of_z e.e_inuse) (cipher_s e.e_cipher)
        (int_of_z e.e_maj) (int_of_z e.e_min) (int_of_z e.e_ems) (int_of_z e.e_start) (hexn e.e_id) (hex4 e.e_ms))) st.s_tbl;
  Buffer.add_string b "}";
  if st.s_corrupt then Buffer.add_string b " L!CORRUPT"
  else Buffer.add_string b (" L[" ^ String.concat "," (List.map (fun i -> string_of_int (int_of_nat i)) st.s_chron) ^ "]");
  Buffer.contents b
let dump_keys (st : state) =
  " K[" ^ String.concat "" (List.map (fun (k : tkey) -> Printf.sprintf "%02x/%d/%d," (int_of_n (List.hd k.k_name)) (int_of_z k.k_symlen) (int_of_z k.k_inuse)) st.s_keys) ^ "]"

(* ---- case state *)
let cs = ref [] and st = ref (init_state (z_of_int 1000000))
let bank = Array.make 16 ([], 0) and tbank = Array.make 16 []
let conn_ix (s : string) = let c = Char.code s.[0] - 65 in if c >= 0 && c < 6 then c else 0
let getc k = List.nth !cs k
let kv (a : string list) (k : string) : string option =
  let p = k ^ "=" in let l = String.length p in
  List.fold_left (fun acc t -> match acc with Some _ -> acc | None ->
    if String.length t >= l && String.sub t 0 l = p then Some (String.sub t l (String.length t - l)) else None) None a
let hexbyte = function None -> 0 | Some s -> (try int_of_string ("0x" ^ s) land 0xff with _ -> 0)
let atoi s = (* C atoi: leading integer, 0 if none *)
  let n = String.length s in let i = ref 0 and neg = ref false in
  if n > 0 && s.[0] = '-' then (neg := true; incr i);
  let v = ref 0 in while !i < n && s.[!i] >= '0' && s.[!i] <= '9' do v := !v * 10 + Char.code s.[!i] - 48; incr i done;
  if !neg then - !v else !v
let split_edits (spec : string) = match String.split_on_char ':' spec with [] -> ("", []) | h :: r -> (h, List.filter (fun x -> x <> "") r)
let xor_at l pos v = List.mapi (fun i b -> if i = pos then n_of_int (int_of_n b lxor v) else b) l
let edit_pos_val (ed : string) = (* "x<pos>.<hex>" *)
  match String.index_opt ed '.' with
  | Some d -> Some (atoi (String.sub ed 1 (d - 1)), hexbyte (Some (String.sub ed (d + 1) (String.length ed - d - 1))))
  | None -> None

let parse_idspec (spec : string) : n list * int =
  let (h, eds) = split_edits spec in
  let (b, len) =
    if h = "-" || h = "" then (rep 32 0, 0)
    else if h.[0] = '@' then (let c = getc (conn_ix (String.sub h 1 (String.length h - 1))) in (pad32 c.c_sid, int_of_z c.c_sidlen))
    else if h.[0] = '#' then (let (b, l) = bank.(atoi (String.sub h 1 (String.length h - 1)) land 15) in (pad32 b, l))
    else (let d = take 32 (bytes_of_hex h) in (pad32 d, List.length d)) in
  List.fold_left (fun (b, len) ed ->
    if ed.[0] = 't' then (let k = atoi (String.sub ed 1 (String.length ed - 1)) in if k < len then (pad32 (take k b), k) else (b, len))
    else if ed.[0] = 's' then (let k = min 32 (atoi (String.sub ed 1 (String.length ed - 1))) in ((if k < len then pad32 (take k b) else b), k))
    else if ed.[0] = 'x' then (match edit_pos_val ed with Some (p, v) when p >= 0 && p < 32 -> (xor_at b p v, len) | _ -> (b, len))
    else (b, len)) (b, len) eds

let parse_tspec (spec : string) : n list =
  let (h, eds) = split_edits spec in
  let b = if h <> "" && h.[0] = '$' then tbank.(atoi (String.sub h 1 (String.length h - 1)) land 15) else take 512 (bytes_of_hex h) in
  List.fold_left (fun b ed ->
    if ed.[0] = 't' then (let k = atoi (String.sub ed 1 (String.length ed - 1)) in if k < List.length b then take k b else b)
    else if ed.[0] = 'x' then (match edit_pos_val ed with Some (p, v) when p >= 0 && p < List.length b -> xor_at b p v | _ -> b)
    else if ed.[0] = 'a' then (let d = bytes_of_hex (String.sub ed 1 (String.length ed - 1)) in if List.length b + List.length d <= 512 then b @ d else b)
    else b) b eds

let do_step (o : op) : int =
  let ((rc, cs'), st') = step o !cs !st in cs := cs'; st := st'; int_of_z rc
let setc k c = cs := List.mapi (fun i x -> if i = k then c else x) !cs
let nk k = nat_of_int k

(* scripted ticket callback, as in h_cache.c *)
let cb_script = ref "" and cb_pos = ref 0 and cb_calls = ref 0 and cb_lastfound = ref (-1)
let cb_k = ref 0x11 and cb_h = ref 0x22 and cb_kl = ref 32 and cb_wn = ref 0xee
let cb_fun () : cbfun option =
  if !cb_script = "" then None else
  Some (fun name found ->
    let v = !cb_script.[!cb_pos] in
    if !cb_pos + 1 < String.length !cb_script then incr cb_pos;
    incr cb_calls; cb_lastfound := (if found then 1 else 0);
    match v with
    | 'r' -> CbReject
    | 'l' when not found -> CbLoad (name, rep 32 !cb_k, z_of_int !cb_kl, rep 32 !cb_h, z_of_int 32)
    | 'w' -> CbLoad (rep 16 !cb_wn, rep 32 !cb_k, z_of_int !cb_kl, rep 32 !cb_h, z_of_int 32)
    | _ -> CbAccept)

let do_op (a : string list) : string =
  let op = List.hd a in
  let x = match a with _ :: s :: _ -> conn_ix s | _ -> 0 in
  let full rc = Printf.sprintf "%s=%d%s%s" op rc (dump_conn (Char.chr (65 + x)) (getc x)) (dump_table !st) in
  match op, a with
  | "new", _ :: _ :: rest ->
      let v = match kv rest "v" with Some s -> atoi s | None -> 33 in
      let su = match kv rest "s" with Some s -> (try int_of_string ("0x" ^ s) with _ -> 0) | None -> 0xc02f in
      let e = match kv rest "e" with Some s -> atoi s land 1 | None -> 0 in
      let m = hexbyte (kv rest "m") in
      let r = match kv rest "r" with Some s when String.length s = 64 -> bytes_of_hex s | o -> rep 32 (hexbyte o) in
      let (maj, mi) = (try List.assoc v (List.map (fun (a, (b, c)) -> (int_of_z a, (b, c))) k_versions)
                       with Not_found -> List.assoc 33 (List.map (fun (a, (b, c)) -> (int_of_z a, (b, c))) k_versions)) in
      let ci = if avail (z_of_int su) then Some (z_of_int su) else None in
      let c = { conn0 with c_ms = rep 48 m; c_rand = r; c_cipher = ci; c_maj = maj; c_min = mi; c_ems = (e = 1); c_is13 = (v = 34) } in
      ignore (do_step (ONew (nk x, c)));
      full (if ci = None then -1 else 0)
  | "reg", _ -> full (do_step (OReg (nk x)))
  | "sh", _ -> if (getc x).c_resumed then full (-100) else (let rc = do_step (OReg (nk x)) in ignore (do_step (OUpd (nk x))); full rc)
  | "res", _ -> full (do_step (ORes (nk x)))
  | "upd", _ -> full (do_step (OUpd (nk x)))
  | "clr", [_; _; r] -> full (do_step (OClr (nk x, atoi r <> 0)))
  | "chr", _ -> full (do_step (OChr (nk x)))
  | "del", _ -> full (do_step (ODel (nk x)))
  | "alert", _ -> full (do_step (OAlert (nk x)))
  | "sid", [_; _; spec] -> let (b, len) = parse_idspec spec in ignore (do_step (OSid (nk x, b, z_of_int len))); full 0
  | "save", [_; k; y] -> let yi = conn_ix y in let c = getc yi in bank.(atoi k land 15) <- (pad32 c.c_sid, int_of_z c.c_sidlen);
      Printf.sprintf "save=0%s%s" (dump_conn (Char.chr (65 + yi)) c) (dump_table !st)
  | "flag", [_; _; f] ->
      let c = getc x in let on = f.[1] = '1' in
      let (cl, er, re) = (match f.[0] with 'C' -> (on, c.c_error, c.c_resumed) | 'E' -> (c.c_closed, on, c.c_resumed) | _ -> (c.c_closed, c.c_error, on)) in
      ignore (do_step (OFlag (nk x, cl, er, re))); full 0
  | "t13v", _ :: _ :: rest ->
      let num k d = match kv rest k with Some s -> int_of_string s | None -> d in
      let v = num "v" 34 and life = num "life" 360 and age = num "age" 0 in
      let su = match kv rest "s" with Some s -> (try int_of_string ("0x" ^ s) with _ -> 0) | None -> 0x1301 in
      let c = getc x in
      let (maj, mi) = (try List.assoc v (List.map (fun (a, (b, c)) -> (int_of_z a, (b, c))) k_versions) with Not_found -> (z_of_int 3, z_of_int 4)) in
      let now = int_of_z !st.s_now in
      (match c.c_cipher with
       | None -> "t13v=-100:0"
       | Some suite when now - age >= 0 ->
           let zi i = z_of_hex (Printf.sprintf "%x" i) in
           let p = { p_maj = maj; p_min = mi; p_cipher = z_of_int su; p_life = zi life; p_stamp = zi (now - age) } in
           let (rc, err) = tls13_validate c suite p !st in Printf.sprintf "t13v=%d:%d" (int_of_z rc) (int_of_z err)
       | _ -> "t13v=-100:0")
  | "tick", [_; d] -> ignore (do_step (OTick (z_of_hex (Printf.sprintf "%x" (int_of_string d))))); "tick=0"
  | "kadd", _ :: rest ->
      let b k = hexbyte (kv rest k) in let num k d = match kv rest k with Some s -> atoi s | None -> d in
      let (rc, st') = key_add (rep 16 (b "n")) (rep 32 (b "k")) (z_of_int (num "kl" 32)) (rep 32 (b "h")) (z_of_int (num "hl" 32)) !st in
      st := st'; Printf.sprintf "kadd=%d%s" (int_of_z rc) (dump_keys !st)
  | "kdel", _ :: rest ->
      let (rc, st') = key_del (rep 16 (hexbyte (kv rest "n"))) !st in
      st := st'; Printf.sprintf "kdel=%d%s" (int_of_z rc) (dump_keys !st)
  | "mkt", _ :: _ :: rest ->
      let iv = rep 16 (hexbyte (kv rest "iv")) and j = (match kv rest "j" with Some s -> atoi s | None -> 0) land 15 in
      let (rc, t) = (match ticket_create toy_crypt toy_mac (getc x) iv !st with Some t -> (0, t) | None -> (-100, [])) in
      tbank.(j) <- drop 6 t;
      Printf.sprintf "mkt=%d:%s%s%s%s" rc (hexn t) (dump_conn (Char.chr (65 + x)) (getc x)) (dump_table !st) (dump_keys !st)
  | "cb", _ :: sc :: rest ->
      cb_pos := 0; cb_calls := 0; cb_lastfound := -1;
      if sc = "" || sc.[0] = '-' then (cb_script := ""; "cb=0")
      else begin
        cb_script := (if String.length sc > 31 then String.sub sc 0 31 else sc);
        let hx k d = match kv rest k with Some s -> (try int_of_string ("0x" ^ s) land 0xff with _ -> d) | None -> d in
        cb_k := hx "k" 0x11; cb_h := hx "h" 0x22; cb_wn := hx "wn" 0xee;
        cb_kl := (match kv rest "kl" with Some s -> atoi s | None -> 32); "cb=1" end
  | "unl", [_; _; spec] ->
      let t = parse_tspec spec in
      let ((rc, c'), st') = ticket_ext_cb toy_crypt toy_mac avail (cb_fun ()) (getc x) t !st in
      st := st'; setc x c';
      full (int_of_z rc) ^ dump_keys !st ^ (if !cb_script = "" then "" else Printf.sprintf " C%d:%d" !cb_calls !cb_lastfound)
  | _ -> "?" ^ op

let rec split_ops (toks : string list) (cur : string list) (acc : string list list) =
  match toks with
  | [] -> List.rev (List.rev cur :: acc)
  | ";" :: r -> split_ops r [] (List.rev cur :: acc)
  | t :: r -> split_ops r (t :: cur) acc

let () = iter_lines (fun l ->
  match split_ws l with
  | "c" :: toks ->
      cs := List.init 6 (fun _ -> conn0); st := init_state (z_of_int 1000000);
      Array.fill bank 0 16 ([], 0); Array.fill tbank 0 16 []; cb_script := "";
      let ops = split_ops toks [] [] in
      (* the harness prints " | " between ops, including after empty ones *)
      String.concat " | " (List.map (fun o -> if o = [] then "" else do_op o) ops)
  | [] -> ""
  | _ -> "BADCASE")
