open M_c02
(*#include conv*)
(* C02 model driver.  Case lines (same as harness/h_rec.c; the harness ignores the state fields it can read itself):
     run  <session-key> | <fam> <msz> <key> <mackey> <iv> <seq-hex> <maj> <min> <expl> <maxfrag> | <wire-hex>
     seal <session-key> | <fam> <msz> <key> <mackey> <iv> <seq-hex> <maj> <min> <expl> <maxfrag> | <typ> <pt-hex> <pad | b<blocksize>>
   fam: cbc gcm12 chacha12 gcm13 chacha13.
   Result of run: one token per event (D:<hex> application data, T<typ>:<hex> other verified content, F:<alert>, S, R, P, X)
   followed by seq=<hex>.  Result of seal: the record body in hex. *)
let un = bytes_of_hex
let hx = hex_of_bytes

let fam_of = function
  | "cbc" -> FCbc | "gcm12" -> FGcm12 | "chacha12" -> FChacha12 | "gcm13" -> FGcm13 | "chacha13" -> FChacha13
  | _ -> failwith "family"

let state_of key mk iv seq maj mi ex mf : rst =
  { k_enc = un key; k_mac = un mk; k_iv = un iv; seqn = n_of_hex seq; vmaj = n_of_int (int_of_string maj);
    vmin = n_of_int (int_of_string mi); expl = (ex = "1"); maxfrag = n_of_int (int_of_string mf) }

let show_event = function
  | EData (t, pt) -> if int_of_n t = 23 then "D:" ^ hx pt else Printf.sprintf "T%d:%s" (int_of_n t) (hx pt)
  | EFatal a -> Printf.sprintf "F:%d" (int_of_z a)
  | ESkip -> "S"
  | EPlainAlert -> "R"
  | EPartial -> "P"
  | EFault -> "X"

let rec after_bar = function [] -> [] | "|" :: r -> r | _ :: r -> after_bar r

let () = iter_lines (fun l ->
  let t = split_ws l in
  match t with
  | op :: _ ->
    (match after_bar t with
     | fam :: msz :: key :: mk :: iv :: seq :: maj :: mi :: ex :: mf :: "|" :: rest ->
       let f = fam_of fam and m = nat_of_int (int_of_string msz) in
       let s = state_of key mk iv seq maj mi ex mf in
       (match op, rest with
        | "run", [wire] ->
          let (ev, s') = i_run_wire m f s (un wire) in
          String.concat " " (List.map show_event ev @ ["seq=" ^ hex_of_n s'.seqn])
        | "seal", [typ; pt; pad] ->
          let ty = n_of_int (int_of_string typ) and p = un pt in
          let (body, _) = (match f with
            | FCbc -> i_seal_cbc m s [] ty p
            | FGcm12 -> i_seal_gcm12 s ty p
            | FChacha12 -> i_seal_chacha12 s ty p
            | FGcm13 | FChacha13 ->
              let g = (f = FGcm13) in
              (* pad = <n> zero bytes, or b<bs> = what tls13GetPadLen computes for block size bs *)
              if String.length pad > 1 && pad.[0] = 'b'
              then i_seal_tls13_block g s (n_of_int (int_of_string (String.sub pad 1 (String.length pad - 1)))) ty p
              else i_seal_tls13 g s (nat_of_int (int_of_string pad)) ty p) in
          hx body
        | _ -> "BADCASE")
     | _ -> "BADCASE")
  | [] -> "BADCASE")
