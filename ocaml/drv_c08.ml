open M_c08
(*#include conv*)
(* C08 model driver: same unit operations as harness/h_wire.c `u ...`, state given explicitly.
   hdr  <head> <actv> <supp> <hs> <exp> <last> <bm> <pccs> <ade0> <server> <hex>
   t13  <outpos> <hs> <hex> ...            (TLS 1.3 plaintext state; unknown handshake types are refused by the gate)
   tls  <head> <actv> <supp> <hs> <hex> ...     (records of a TLS <= 1.2 session in plaintext state)
   dtls <head> <actv> <supp> <hs> <lastmsn> <hex> ...   (datagrams of a DTLS session in plaintext state, epoch 0)
   api  <insize> <outsize> <outlen> <default> <n> <rc:moved:len:req:err:alert:ctlen:done,...>
   cbc  <rec_len> <mac> <block> <pad> <eiv> <ssl3> <all pad bytes equal> *)
let zi = z_of_int and iz = int_of_z
let fnv32 (b : n list) : int =
  List.fold_left (fun h x -> ((h lxor (int_of_n x)) * 16777619) land 0xFFFFFFFF) 2166136261 b
let zlen l = zi (List.length l)
let fuel_of l = nat_of_int (List.length l + 2)
let n_of_dec (s : string) : n = n_of_hex (Printf.sprintf "%x" (int_of_string s))

let stage_str (r : stage res) : string * dctx option =
  match r with
  | Fault -> ("FAULT", None) | OutOfFuel -> ("HANG", None)
  | Ok (SRet (rc, used, x)) -> (Printf.sprintf "R %d %d" (iz rc) (iz used), Some x)
  | Ok (SPartial (req, x)) -> (Printf.sprintf "P %d" (iz req), Some x)
  | Ok (SAlert (a, x)) -> (Printf.sprintf "A %d" (iz a), Some x)
  | Ok (SDecrypt (off, len, _, x)) -> (Printf.sprintf "D %d %d" (iz off) (iz len), Some x)

let mk_dctx head actv supp hs exp last bm pccs ade0 server : dctx =
  { dx_h = { hx_head = zi head; hx_actv = actv; hx_supp = supp; hx_hs = zi hs };
    dx_rx = { rx_exp = n_of_int exp; rx_win = { w_last = last; w_bm = bm } };
    dx_pccs = pccs; dx_ade0 = ade0; dx_server = server }

let frag_str (fr : frag) = Printf.sprintf "fi=%d ft=%d fm=%d" (iz fr.fr_index) (iz fr.fr_total) (b2i (fr.fr_msg <> None))
let dfrag_str (fr : frag) = Printf.sprintf "ft=%d fs=%d nh=%d fm=%d" (iz fr.fr_total) (iz fr.fr_stored) (List.length fr.fr_hdrs) (b2i (fr.fr_msg <> None))

(* gates of the sessions the harness uses: a message type other than the awaited one is refused *)
let gate12 hs t = if iz hs = iz t then GProceed else GErr (zi 10)
let gated hs last t msn =
  if iz hs = iz t then GProceed
  else if iz last + 1 = iz msn then GErr (zi 10)
  else if iz last >= iz msn then GRet c_DTLS_RETRANSMIT else GErr (zi 10)
(* the parsers are not modelled: comparison stops at the first hand-off, any answer will do *)
let orc12 = { o_gate = gate12; o_parse = (fun hs _ _ -> ((zi (-1), zi 0), hs)) }
let orcd = { d_gate = gated; d_parse = (fun hs _ _ -> ((zi (-1), zi 0), hs)) }
let orc13 = { o_check = (fun _ _ -> Some (zi 10)); o_parse13 = (fun hs _ _ -> ((zi 0, hs), false)) }

let log_new (before : handoffs) (after : handoffs) : (z * bytes) list =
  let rec drop n l = if n = 0 then l else match l with [] -> [] | _ :: r -> drop (n - 1) r in
  drop (List.length before) after

let () = iter_lines (fun l ->
  match split_ws l with
  | ["hdr"; head; actv; supp; hs; exp; last; bm; pccs; ade0; server; hex] ->
      let b = bytes_of_hex hex in
      let x = mk_dctx (int_of_string head) (z_of_hex actv) (z_of_hex supp) (int_of_string hs) (int_of_string exp)
                (n_of_hex last) (n_of_hex bm) (pccs = "1") (ade0 = "1") (server = "1") in
      let (s, x') = stage_str (decode12 (fuel_of b) all_fixed x b Z0 (zlen b)) in
      (match x' with
       | Some x' -> Printf.sprintf "%s post=%s:%d:%s:%s" s (hex_of_z x'.dx_h.hx_actv) (int_of_n x'.dx_rx.rx_exp)
                      (hex_of_n x'.dx_rx.rx_win.w_last) (hex_of_n x'.dx_rx.rx_win.w_bm)
       | None -> s)
  | "t13" :: outpos :: hs :: hexes ->
      let st = ref { t_frag = frag_none; t_hs = zi (int_of_string hs); t_decrypting = false; t_log = [] } in
      let dead = ref false in
      let outs = List.filter_map (fun hex ->
        if !dead then None else begin
        let b = bytes_of_hex hex in
        let lim = zlen b in
        let res =
          match hdr13 (fuel_of b) all_fixed (outpos = "1") b Z0 Z0 lim with
          | Fault -> "FAULT" | OutOfFuel -> "HANG"
          | Ok (TPartial req) -> Printf.sprintf "P %d" (iz req)
          | Ok (TAlert a) -> dead := true; Printf.sprintf "A %d" (iz a)
          | Ok (TCcsDone (rc, used)) -> Printf.sprintf "%s %d %d" (if iz rc = 0 then "R" else "X") (iz rc) (iz used)
          | Ok (TRecord (off, len, typ, _)) ->
              if iz typ <> 22 then (dead := true; "A 10")                 (* plaintext application data; alerts are not generated *)
              else if iz len > iz c_TLS_1_3_MAX_PLAINTEXT_FRAGMENT_LEN then (dead := true; "A 22")
              else
              (match hs13_loop (fuel_of b) all_fixed orc13 !st b off off (zi (iz off + iz len)) false (zi 17) with
               | Fault -> "FAULT" | OutOfFuel -> "HANG"
               | Ok (st', ORet (rc, used)) -> st := st'; Printf.sprintf "R %d %d" (iz rc) (if iz rc = 0 then iz used else 0)
               | Ok (st', OEncode (Some a)) -> st := st'; dead := true; Printf.sprintf "A %d" (iz a)
               | Ok (st', OEncode None) -> st := st'; dead := true; "E") in
        Some (Printf.sprintf "%s %s" res (frag_str !st.t_frag)) end) hexes in
      String.concat " | " outs
  | "tls" :: head :: actv :: supp :: hs :: hexes ->
      let st = ref { h_frag = frag_none; h_hs = zi (int_of_string hs); h_log = [] } in
      let actv = ref (z_of_hex actv) in
      let dead = ref false in
      let outs = List.filter_map (fun hex ->
        if !dead then None else begin
        let b = bytes_of_hex hex in
        let x = mk_dctx (int_of_string head) !actv (z_of_hex supp) (iz !st.h_hs) 0 N0 N0 false true false in
        let extra = ref "" in
        let res =
          match decode12 (fuel_of b) all_fixed x b Z0 (zlen b) with
          | Ok (SDecrypt (off, len, h, x')) ->
              actv := x'.dx_h.hx_actv;
              if iz h.rh_type <> 22 then "X"
              else begin
                let body = List.filteri (fun i _ -> i >= iz off && i < iz off + iz len) b in
                match hs_record_tls (fuel_of body) orc12 !st body len with
                | Fault -> "FAULT" | OutOfFuel -> "HANG"
                | Ok (st', out) ->
                    let nw = log_new !st.h_log st'.h_log in
                    extra := String.concat "" (List.map (fun (_, m) -> Printf.sprintf " H%d:%08x" (List.length m) (fnv32 m)) nw);
                    st := st';
                    (match out with
                     | HsRet rc -> if iz rc = 0 then Printf.sprintf "R 0 %d" (iz off + iz len) else (dead := true; "U")
                     | HsErr a -> dead := true; Printf.sprintf "A %d" (iz a))
              end
          | r -> let (s, _) = stage_str r in (if String.length s > 0 && s.[0] = 'A' then dead := true); s in
        Some (Printf.sprintf "%s %s%s" res (frag_str !st.h_frag) !extra) end) hexes in
      String.concat " | " outs
  | "dtls" :: head :: actv :: supp :: hs :: lastmsn :: hexes ->
      let st = ref { g_frag = frag_none; g_hs = zi (int_of_string hs); g_last_msn = zi (int_of_string lastmsn); g_log = []; g_hashed = [] } in
      let x = ref (mk_dctx (int_of_string head) (z_of_hex actv) (z_of_hex supp) (int_of_string hs) 0 N0 N0 false true false) in
      let dead = ref false in
      let outs = List.filter_map (fun hex ->
        if !dead then None else begin
        let b = bytes_of_hex hex in
        let extra = ref "" in
        let res =
          match decode12 (fuel_of b) all_fixed !x b Z0 (zlen b) with
          | Ok (SDecrypt (off, len, h, x')) ->
              x := x';
              if iz h.rh_type <> 22 then "X"
              else begin
                let body = List.filteri (fun i _ -> i >= iz off && i < iz off + iz len) b in
                match hs_record_dtls (fuel_of body) all_fixed orcd !st body len with
                | Fault -> "FAULT" | OutOfFuel -> "HANG"
                | Ok (st', out) ->
                    let nw = log_new !st.g_log st'.g_log in
                    let nh = List.length st'.g_hashed - List.length !st.g_hashed in
                    (match nw with
                     | [] -> ()
                     | (_, m) :: _ ->
                         if nh > 0 then begin
                           (* reassembled: fake header (stack), then the stored fragments in offset order *)
                           let chunks = List.nth st'.g_hashed (List.length st'.g_hashed - 1) in
                           let off = ref 0 in
                           extra := (if chunks = [] then "" else " S12") ^ String.concat "" (List.map (fun c ->
                             let s = Printf.sprintf " F%d:%d:%08x" !off (List.length c) (fnv32 c) in off := !off + List.length c; s) chunks)
                         end else extra := Printf.sprintf " I%d:%08x" (List.length m) (fnv32 m));
                    st := st';
                    (match out with
                     | HsRet rc -> if iz rc = 0 || iz rc = iz c_DTLS_RETRANSMIT then Printf.sprintf "R %d %d" (iz rc) (iz off + iz len)
                                   else if nw <> [] then (dead := true; "U") else Printf.sprintf "X %d" (iz rc)
                     | HsErr a -> dead := true; Printf.sprintf "A %d" (iz a))
              end
          | r -> let (s, xo) = stage_str r in (match xo with Some x' -> x := x' | None -> ());
                 (if String.length s > 0 && s.[0] = 'A' then dead := true); s in
        Some (Printf.sprintf "%s %s%s" res (dfrag_str !st.g_frag) !extra) end) hexes in
      String.concat " | " outs
  | ["api"; insize; outsize; outlen; dflt; n; script] ->
      let sticky = ref false in        (* the harness leaves hsState = SSL_HS_DONE once an answer said so *)
      let ds = Array.of_list (List.map (fun e ->
        match List.map int_of_string (String.split_on_char ':' e) with
        | [rc; moved; len; req; err; alert; ctlen; don] ->
            if don <> 0 then sticky := true;
            { dr_rc = zi rc; dr_moved = zi moved; dr_len = zi len; dr_req = zi req; dr_err = zi err; dr_alert = zi alert;
              dr_ctlen = zi ctlen; dr_done = !sticky }
        | _ -> failwith "script") (String.split_on_char ',' script)) in
      let calls = ref 0 in
      let done_now () = !calls > 0 && ds.(min (!calls - 1) (Array.length ds - 1)).dr_done in
      let more = { dr_rc = zi (-51); dr_moved = Z0; dr_len = Z0; dr_req = zi 5; dr_err = Z0; dr_alert = zi 255; dr_ctlen = Z0; dr_done = !sticky } in
      let dec _ _ _ = let i = !calls in incr calls; if i < Array.length ds then ds.(i) else more in
      let a0 = { a_inlen = Z0; a_insize = zi (int_of_string insize); a_outlen = zi (int_of_string outlen); a_outsize = zi (int_of_string outsize);
                 a_hs_complete_flag = false; a_dtls = false; a_tls13 = false; a_false_start = false;
                 a_default = zi (int_of_string dflt); a_ctlen = Z0 } in
      let buf = Buffer.create 64 in
      Buffer.add_string buf (Printf.sprintf "rb=%d" (iz (snd (get_readbuf a0))));
      let show rc a = Buffer.add_string buf (Printf.sprintf " %d:%d/%d:%d/%d" (iz rc) (iz a.a_inlen) (iz a.a_insize) (iz a.a_outlen) (iz a.a_outsize)) in
      let rec go r guard =
        match r with
        | Fault -> Buffer.add_string buf " FAULT"; None
        | OutOfFuel -> Buffer.add_string buf " HANG"; None
        | Ok (ARet (rc, a)) ->
            show rc a;
            if (iz rc = 4 || iz rc = 6) && guard < 40 then go (processed_data dec (fun _ -> true) O a (done_now ())) (guard + 1) else Some a in
      (match go (received_data dec (fun _ -> true) O a0 (zi (int_of_string n))) 0 with
       | Some a ->
           let (off, room) = get_readbuf a in
           (match (if iz room > 0 then app_write a (zi 1) else Ok ()) with
            | Fault -> Buffer.add_string buf " FAULT"
            | _ -> Buffer.add_string buf (Printf.sprintf " rb=%d" (iz room)))
       | None -> ());
      Buffer.contents buf
  | "pb" :: hex :: off :: len :: ops ->
      let b = bytes_of_hex hex in
      let pb = ref (pb_from false (zi (int_of_string off)) (zi (int_of_string len))) in
      let fault = ref false in
      let args a = List.map int_of_string (String.split_on_char ',' (String.sub a 1 (String.length a - 1))) in
      let outs = List.map (fun a ->
        if !fault then "" else begin
        let r =
          match a.[0] with
          | 'o' -> (match pb_octet b !pb with Ok (Some v, p) -> pb := p; Printf.sprintf "o:%d" (iz v) | Ok (None, _) -> "o:-" | _ -> fault := true; "FAULT")
          | 'h' -> (match pb_be16 b !pb with Ok (Some v, p) -> pb := p; Printf.sprintf "h:%d" (iz v) | Ok (None, _) -> "h:-" | _ -> fault := true; "FAULT")
          | 'w' -> (match pb_be32 b !pb with Ok (Some v, p) -> pb := p; Printf.sprintf "w:%d" (iz v) | Ok (None, _) -> "w:-" | _ -> fault := true; "FAULT")
          | ('t' | 's') as c ->
              let n = List.hd (args a) in
              (match pb_try_octets b !pb (zi n) (c = 't') with
               | Ok (Some v, p) -> pb := p; if c = 't' then Printf.sprintf "t:%08x" (fnv32 v) else "s:1"
               | Ok (None, _) -> if n = 0 then (if c = 't' then Printf.sprintf "t:%08x" (fnv32 []) else "s:1") else Printf.sprintf "%c:-" c
               | _ -> fault := true; "FAULT")
          | 'f' -> let (k, p) = pb_try_forward !pb (zi (List.hd (args a))) in pb := p; Printf.sprintf "f:%d" (iz k)
          | 'r' -> (match pb_rec_hdr b !pb with
                    | Ok (Some (((t, ma), mi), l), p) -> pb := p; Printf.sprintf "r:%d,%d,%d,%d" (iz t) (iz ma) (iz mi) (iz l)
                    | Ok (None, _) -> "r:-" | _ -> fault := true; "FAULT")
          | 'm' -> (match pb_hs_hdr b !pb with
                    | Ok (Some (t, l), p) -> pb := p; Printf.sprintf "m:%d,%d" (iz t) (iz l)
                    | Ok (None, _) -> "m:-" | _ -> fault := true; "FAULT")
          | 'g' -> Printf.sprintf "g:%d" (iz (pb_remaining !pb))
          | 'k' -> Printf.sprintf "k:%d" (b2i (pb_can_read !pb (zi (List.hd (args a)))))
          | 'e' -> pb := { !pb with pb_err = true }; "e:1"
          | 'v' -> (match args a with
                    | [mn; mx] -> (match pb_tls_vector b !pb (zi mn) (zi mx) with
                                   | Ok (VOk (n, d), p) -> pb := p; Printf.sprintf "v:%d,%d" (iz n) (iz d)
                                   | Ok (VErr rc, _) -> Printf.sprintf "v:%d" (iz rc)
                                   | _ -> fault := true; "FAULT")
                    | _ -> "?")
          | 'V' -> (match args a with
                    | [s; e; mn; mx] -> (match parse_tls_vec b (zi s) (zi e) (zi mn) (zi mx) with
                                         | Ok (VOk (n, d)) -> Printf.sprintf "V:%d,%d" (iz n) (iz d)
                                         | Ok (VErr rc) -> Printf.sprintf "V:%d" (iz rc)
                                         | _ -> fault := true; "FAULT")
                    | _ -> "?")
          | ('c' | 'C') as c ->
              (match args a with
               | req :: rest ->
                   let tl = (match rest with [t] -> t | _ -> 0) in
                   (match pb_copy_n b !pb (zi req) (c = 'c') (zi tl) with
                    | Ok ((rc, v), tl') -> Printf.sprintf "%c:%d,%d,%08x" c (iz rc) (iz tl') (if iz rc = 0 then fnv32 v else 0)
                    | _ -> fault := true; "FAULT")
               | _ -> "?")
          | _ -> "?" in
        if !fault then "FAULT" else Printf.sprintf "%s@%d" r (iz !pb.pb_start) end) ops in
      if !fault then "FAULT" else String.concat " " outs
  | ["cbc"; rl; mac; blk; pad; eiv; ssl3; eq] ->
      let l = cbc_mac_layout (zi (int_of_string rl)) (zi (int_of_string mac)) (zi (int_of_string blk)) (zi (int_of_string pad)) (eiv = "1") (ssl3 = "1") (eq = "1") in
      if l.cl_sane then Printf.sprintf "V %d %d %d" (iz l.cl_data_off) (iz l.cl_data_len) (iz l.cl_mac_off) else "A 20"
  | _ -> "BADCASE")
