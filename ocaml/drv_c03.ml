open M_c03
(*#include conv*)
(* Same case lines as harness/h_chain.c (see there).  A node token has 28 ':'-separated fields
     b k hs ss co alg subj iss ver ca pl ku eku crit akl akv skl skv fl0 st0 nb na rev | sf kf ta p3 dn
   the last five are ground truth / abstract values supplied by the generator and ignored by the C side:
     sf  identity of the key that really signed the TBS the node carries (0 = nobody we know)
     kf  identity of the public key the node carries
     ta  the algorithm that TBS was really signed with (0 = ECDSA: verification does not look at the OID)
     p3  issuedBefore(RFC_3280) of the node's notBefore;  dn  validateDateRange verdict "now"
   An optional 29th field is the serialNumber (hex octets, "e" = empty, "-" or absent = unknown: a placeholder).
   vk / ak lines carry CRL tokens  ci:iss:au:ap:ex:nu:co:ss:up:sf:ta:serials  (see h_chain.c; sf = identity of the key
   that really signed the CRL, ta = its algorithm, serials = '.'-separated hex of the revoked serial numbers, "-" none).
   argv[1] = "pinned" selects the model of the unrepaired code (default: repaired). *)
let fx = not (Array.length Sys.argv > 1 && Sys.argv.(1) = "pinned")
let ni s = n_of_int (int_of_string s)
let zi s = z_of_int (int_of_string s)

type node = { c : cert; tbs_signer : int; tbs_alg : int }
let parse_node (tok : string) : node =
  let f = Array.of_list (String.split_on_char ':' tok) in
  if Array.length f <> 28 && Array.length f <> 29 then failwith "node";
  let serial = if Array.length f = 29 && f.(28) <> "-" then (if f.(28) = "e" then [] else bytes_of_hex f.(28))
               else [n_of_int 255; n_of_int 255; n_of_int (int_of_string f.(0))] in
  let i k = int_of_string f.(k) in
  let b = i 0 in
  let tbs = if i 2 >= 0 then i 2 else b in
  let sg = (if i 3 >= 0 then i 3 else b) * 2 + (if i 4 = 1 then 1 else 0) in
  { c = { c_subj = ni f.(6); c_iss = ni f.(7); c_tbs = n_of_int tbs; c_sig = n_of_int sg; c_alg = ni f.(5);
          c_key = ni f.(24); c_ver = zi f.(8); c_ca = zi f.(9); c_pathlen = zi f.(10); c_ku = ni f.(11);
          c_eku = ni f.(12); c_eku_crit = (i 13 <> 0); c_ak_len = ni f.(14); c_ak_val = ni f.(15);
          c_sk_len = ni f.(16); c_sk_val = ni f.(17); c_serial = serial; c_crldist = false; c_pre3280 = zi f.(26);
          c_date_now = zi f.(27); c_fl0 = ni f.(18); c_st0 = zi f.(19) };
    tbs_signer = i 23; tbs_alg = i 25 }

(* psVerifySig instantiated from the case's ground truth: the signature bytes are the untouched
   signature of the very TBS the node carries, that TBS was signed by the key the issuer carries,
   with the algorithm the node declares *)
type kc = { r : crl; by_ : int; up : bool; crl_signer : int; crl_alg : int }
let parse_crl (idx : int) (tok : string) : kc =
  let f = Array.of_list (String.split_on_char ':' tok) in
  if Array.length f <> 12 then failwith "crl";
  let i k = int_of_string f.(k) in
  let ci = i 0 in
  let sg = (1000 + (if i 7 >= 0 then i 7 else ci)) * 2 + (if i 6 = 1 then 1 else 0) in
  let serials = if f.(11) = "-" then [] else
    List.map (fun h -> if h = "e" then [] else bytes_of_hex h) (String.split_on_char '.' f.(11)) in
  { r = { r_id = nat_of_int idx; r_iss = ni f.(1); r_tbs = n_of_int (1000 + ci); r_sig = n_of_int sg; r_alg = ni f.(10);
          r_auth = (i 2 <> 0); r_expired = (i 4 <> 0); r_next = z_of_int (if i 5 = 1 || i 5 = 2 then -1 else 0); r_serials = serials };
    by_ = i 3; up = (i 8 <> 0); crl_signer = i 9; crl_alg = i 10 }

let mk_sig_ok (nodes : node list) (crls : kc list) : n -> n -> n -> n -> bool =
  let tbl = List.map (fun nd -> (int_of_n nd.c.c_tbs, (nd.tbs_signer, nd.tbs_alg))) nodes
            @ List.map (fun k -> (int_of_n k.r.r_tbs, (k.crl_signer, k.crl_alg))) crls in
  fun key tbs sg alg ->
    let t = int_of_n tbs in
    match List.assoc_opt t tbl with
    | None -> false
    | Some (signer, talg) -> int_of_n sg = 2 * t && signer <> 0 && int_of_n key = signer && (talg = 0 || int_of_n alg = talg)

let show (r : vres) (nk : int) (gone : crl list) (aurcs : z list) : string =
  let f = match r.v_found with FNone -> "-" | FChain i -> "c" ^ string_of_int (int_of_nat i) | FAnchor i -> "a" ^ string_of_int (int_of_nat i) in
  let all = r.v_k.k_cache @ gone in
  let ka = if nk = 0 then "-" else String.concat "," (List.init nk (fun i ->
    match List.find_opt (fun c -> int_of_nat c.r_id = i) all with
    | Some c -> Printf.sprintf "%d%d" (b2i c.r_auth) (b2i c.r_expired) | None -> "??")) in
  let ints l = if l = [] then "-" else String.concat "," (List.map (fun x -> string_of_int (int_of_z x)) l) in
  Printf.sprintf "rc=%d found=%s st=%s fl=%s rl=%s ka=%s au=%s" (int_of_z r.v_rc) f
    (String.concat "," (List.map (fun s -> string_of_int (int_of_z s.st)) r.v_states))
    (String.concat "," (List.map (fun s -> string_of_int (int_of_n s.fl)) r.v_states))
    (ints (List.rev r.v_k.k_log)) ka (ints aurcs)

let rec take k l = if k = 0 then [] else match l with [] -> [] | x :: r -> x :: take (k - 1) r
let rec drop k l = if k = 0 then l else match l with [] -> [] | _ :: r -> drop (k - 1) r

let run (isvc : bool) (rv : bool) (nc : int) (na : int) (nk : int) (toks : string list) : string =
  if List.length toks <> nc + na + nk || nc < 1 then "BADCASE" else
  let nodes = List.map parse_node (take (nc + na) toks) in
  let crls = List.mapi parse_crl (drop (nc + na) toks) in
  let so = mk_sig_ok nodes crls in
  let cs = List.map (fun x -> x.c) nodes in
  let arr = Array.of_list cs in
  let load = List.map (fun k -> ((k.r, (if k.by_ >= 0 && k.by_ < Array.length arr then Some arr.(k.by_) else None)), k.up)) crls in
  let ((cache, aurcs), gone) = load_crls so load [] [] [] in
  let k0 = { k_cache = cache; k_log = [] } in
  let res = if isvc then validate so fx rv (take nc cs) (drop nc cs) k0
            else auth_api so fx (take nc cs) (match drop nc cs with [] -> None | a :: _ -> Some a) k0 in
  show res nk gone aurcs

let () = iter_lines (fun l ->
  match split_ws l with
  | "cert" :: _ -> "cert"
  | "vc" :: rv :: nc :: na :: toks -> run true (rv = "1") (int_of_string nc) (int_of_string na) 0 toks
  | "ac" :: nc :: na :: toks -> run false false (int_of_string nc) (int_of_string na) 0 toks
  | "vk" :: rv :: nc :: na :: nk :: toks -> run true (rv = "1") (int_of_string nc) (int_of_string na) (int_of_string nk) toks
  | "ak" :: nc :: na :: nk :: toks -> run false false (int_of_string nc) (int_of_string na) (int_of_string nk) toks
  | "crl" :: _ -> "crl"
  | [ "ps"; _year; _der; ver; ain; aout; csl; cs; cil; ci; unk; now; nb; na ] ->
      let d = { p_ver = zi ver; p_alg_in = ni ain; p_alg_out = ni aout; p_cn_s_len = ni csl; p_cn_s = ni cs;
                p_cn_i_len = ni cil; p_cn_i = ni ci; p_unk_crit = (unk = "1") } in
      if parse_gate fx d then Printf.sprintf "parse=ok fl=%d" (if date_flag (zi now) (zi nb) (zi na) then int_of_n n_PS_CERT_AUTH_FAIL_DATE_FLAG else 0)
      else "parse=fail"
  | _ -> "BADCASE")
