open M_c11
(*#include conv*)
(* C11 model driver: same case lines as harness/h_pk.c (only the modelled commands), same result lines.
   The raw RSA public operation and the EC scalar multiplications are supplied by the case (exact
   integers computed by the check), see props/C11.py. *)
let rc_of = function Err e -> string_of_int (int_of_z e) | Fault -> "FAULT" | OutOfFuel -> "FUEL" | Ok _ -> "0"
let nat_len l = nat_of_int (List.length l)
let curve_by_id (id : int) : curve option =
  List.find_opt (fun c -> int_of_n c.cv_id = id) curve_table

(* aux token of rs/ps cases: "-" crypt is never reached, "L" psRsaCrypt refuses (input > N), else em *)
let crypt_of_aux (aux : string) : n list -> n list res =
  if aux = "-" then (fun _ -> failwith "crypt-called-without-oracle")
  else if aux = "L" then (fun _ -> Err (z_of_int (-9)))
  else let em = bytes_of_hex aux in (fun _ -> Ok em)

let rsa_lines crypt k alg di msg sg =
  let ml = nat_len msg in
  let d =
    if di then decrypt_signed_element_ext crypt k sg ml alg
    else rsa_decrypt_pub crypt k sg (nat_of_int 1024) ml in
  let ds = (match d with Ok h -> "0:" ^ hex_of_bytes h | r -> rc_of r ^ ":-") in
  let v = verify_sig_rsa crypt k msg sg alg di in
  let vs = (match v with Ok _ -> "0:1" | Err e -> string_of_int (int_of_z e) ^ ":0" | r -> rc_of r) in
  Printf.sprintf "d=%s v=%s" ds vs

let pss_v crypt hid k msg sg sl =
  match verify_sig_pss crypt hid k msg sg sl with
  | Ok _ -> "0:1" | Err e -> string_of_int (int_of_z e) ^ ":0" | r -> rc_of r

let point_of_bytes (pt : n list) : (z * z) =
  let l = (List.length pt - 1) / 2 in
  let rec take n = function [] -> [] | x :: r -> if n = 0 then [] else x :: take (n - 1) r in
  let rec drop n l = if n = 0 then l else (match l with [] -> [] | _ :: r -> drop (n - 1) r) in
  let zb b = z_of_hex (hex_of_bytes b) in
  (zb (take l (drop 1 pt)), zb (take l (drop (1 + l) pt)))

let ecdsa_out r =
  match r with
  | Ok true -> "e=0:1 v=0:1"
  | Ok false -> "e=0:0 v=-21:0"
  | Err e -> Printf.sprintf "e=%d:0 v=-1:0" (int_of_z e)
  | x -> "e=" ^ rc_of x

let () = iter_lines (fun l ->
  match split_ws l with
  | ["rv"; bits; alg; di; msg; em] ->
      let em = bytes_of_hex em in
      let k = nat_len em in
      rsa_lines (fun _ -> Ok em) k (n_of_int (int_of_string alg)) (di = "1") (bytes_of_hex msg) em
  | ["rs"; bits; alg; di; msg; sg; aux] ->
      let k = nat_of_int (int_of_string bits / 8) in
      let x = if aux = "-" || aux = "L" then "x=-" else "x=1" in
      x ^ " " ^ rsa_lines (crypt_of_aux aux) k (n_of_int (int_of_string alg)) (di = "1") (bytes_of_hex msg) (bytes_of_hex sg)
  | ["pv"; bits; hid; sl; msg; em] ->
      let em = bytes_of_hex em in
      let k = List.length em in
      let hid = z_of_int (int_of_string hid) and sl = nat_of_int (int_of_string sl) and msg = bytes_of_hex msg in
      let d = (match pss_decode_id hid msg em sl (nat_of_int (8 * k)) with
               | Ok b -> "0:" ^ string_of_int (b2i b) | Err e -> string_of_int (int_of_z e) ^ ":0" | r -> rc_of r) in
      Printf.sprintf "d=%s v=%s" d (pss_v (fun _ -> Ok em) hid (nat_of_int k) msg em sl)
  | ["ps"; bits; hid; sl; msg; sg; aux] ->
      let k = nat_of_int (int_of_string bits / 8) in
      Printf.sprintf "x=- d=-:0 v=%s"
        (pss_v (crypt_of_aux aux) (z_of_int (int_of_string hid)) k (bytes_of_hex msg) (bytes_of_hex sg) (nat_of_int (int_of_string sl)))
  | ["up"; typ; verify; outlen; outcap; em] ->
      (match pkcs1_unpad_ext (bytes_of_hex em) (nat_of_int (int_of_string outcap)) (nat_of_int (int_of_string outlen))
               (n_of_int (int_of_string typ)) (verify = "1") with
       | Ok m -> "u=0:" ^ hex_of_bytes m | r -> "u=" ^ rc_of r ^ (match r with Err _ -> ":-" | _ -> ""))
  | ["dp"; bits; outlen; em] ->
      let ol = nat_of_int (int_of_string outlen) in
      (match pkcs1_unpad_ext (bytes_of_hex em) ol ol pkn_PS_PRIVKEY true with
       | Ok m -> "p=0:" ^ hex_of_bytes m | r -> "p=" ^ rc_of r ^ (match r with Err _ -> ":-" | _ -> ""))
  | [("ev" | "evr") as cmd; cid; pt; h; sg; orc] ->
      (match curve_by_id (int_of_string cid) with
       | None -> "NOCURVE"
       | Some cv ->
         let q = point_of_bytes (bytes_of_hex pt) in
         if cmd = "evr" then ecdsa_out (ecdsa_verify cv q (bytes_of_hex h) (bytes_of_hex sg))
         else
           let smul =
             if orc = "-" then (fun _ _ -> failwith "smul-called-without-oracle")
             else (match String.split_on_char ':' orc with
                   | [u1; x1; y1; u2; x2; y2] ->
                     let u1 = z_of_hex u1 and u2 = z_of_hex u2 in
                     let p1 = if x1 = "inf" then None else Some (z_of_hex x1, z_of_hex y1)
                     and p2 = if x2 = "inf" then None else Some (z_of_hex x2, z_of_hex y2) in
                     (fun k p -> if p = (cv.cv_gx, cv.cv_gy) && k = u1 then p1
                                 else if p = q && k = u2 then p2
                                 else failwith "smul-oracle-miss")
                   | _ -> failwith "bad oracle") in
           ecdsa_out (ecdsa_verify_gen smul cv q (bytes_of_hex h) (bytes_of_hex sg)))
  | ["ei"; cid; pt] ->
      (match curve_by_id (int_of_string cid) with
       | None -> "NOCURVE"
       | Some cv ->
         (match ecc_import cv (bytes_of_hex pt) with
          | Ok (x, y) -> Printf.sprintf "i=0 x=%s y=%s" (hex_of_z x) (hex_of_z y)
          | r -> "i=" ^ rc_of r))
  | ["dh"; p; _; y] ->
      if dh_pub_check (z_of_hex p) (z_of_hex y) then "h=ok" else "h=-1:-"
  | ["ecref"; cid; u1; u2; x; y] ->
      (* the Gallina affine reference itself: u1*G + u2*(x,y) *)
      (match curve_by_id (int_of_string cid) with
       | None -> "NOCURVE"
       | Some cv ->
         (match ec_mulsum cv (z_of_hex u1) (z_of_hex u2) (z_of_hex x, z_of_hex y) with
          | None -> "r=inf" | Some (a, b) -> Printf.sprintf "r=%s:%s" (hex_of_z a) (hex_of_z b)))
  | _ -> "BADCASE")
