open M_c07
(*#include conv*)
(* One case per line, same lines as harness/h_neg.c (direct calls) plus the abstract hello cases that
   props/C07.py derives from live sessions.  Output: the canonical result line. *)
let csv base (s : string) : n list =
  if s = "-" || s = "" then [] else
  List.map (fun x -> n_of_int (int_of_string ((if base = 16 then "0x" else "") ^ x))) (String.split_on_char ',' s)
let ni s = n_of_int (int_of_string s)
let nh s = n_of_int (int_of_string ("0x" ^ s))
let i = int_of_n
let pr_res tag (r : n res) = match r with
  | Ok v -> Printf.sprintf "%s=0:%d:255" tag (i v)
  | Err a -> Printf.sprintf "%s=-1:0:%d" tag (i a)
let vc l = peer_of l
let okf (l : n list) = fun (id : n) -> mem id l
let pr_acc = function
  | Acc13 (v, s) -> Printf.sprintf "acc13 %d %04x" (i v) (i s)
  | AccLegacy (v, s, e) -> Printf.sprintf "acc %d %04x %d" (i v) (i s) (b2i e)
let parse_ext (t : string) : ext =
  match String.split_on_char ':' t with
  | ["ems"; l] -> XEms (ni l)
  | ["sv"; v] -> XSuppVer (ni v)
  | ["ks"; e] -> XKeyShare (ni e)
  | ["psk"; e] -> XPsk (ni e)
  | ["o"; s; a] -> XOther (s = "1", a = "1")
  | _ -> failwith "ext"
let () = iter_lines (fun l ->
  match split_ws l with
  | ["sv"; sp; legacy; has_sv; pp; g13] ->
      let s = vc (csv 10 sp) and p = csv 10 pp in
      let c = { ch_legacy = ni legacy; ch_sv = (if has_sv = "1" then Some p else None) } in
      Printf.sprintf "%s %s %s hi=%d hid=%d lo=%d" (pr_res "leg" (check_client_hello_version s (ni legacy)))
        (if has_sv = "1" then pr_res "sup" (check_supported_versions s (vc p) (g13 = "1")) else "sup=-")
        (pr_res "neg" (server_negotiate_version s c (g13 = "1")))
        (i (ver_get_highest_tls s.v_supp)) (i (ver_get_highest s.v_supp true)) (i (ver_get_lowest_tls s.v_supp))
  | ["dscsv"; c; sv; scsv] ->
      let supp = (match sv with "10" -> 8 | "12" -> 32 | _ -> 40) and legacy = (if c = "10" then 8 else 32) in
      Printf.sprintf "fb=%d" (b2i (scsv = "1" && scsv_inappropriate (n_of_int supp) (n_of_int legacy)))
  | ["cv"; supp; ver] -> pr_res "cv" (check_server_hello_version (ni supp) (ni ver))
  | ["dg"; supp; tail] ->
      (match downgrade_check (ni supp) (bytes_of_hex tail) with Ok _ -> "dg=0:255" | Err a -> Printf.sprintf "dg=-1:%d" (i a))
  | ["ips"; a; b; f] ->
      (match ips (csv 10 a) (csv 10 b) (csv 10 f) with Some x -> Printf.sprintf "ips=0:%d" (i x) | None -> "ips=-1:0")
  | ["grp"; a; b] -> Printf.sprintf "grp=%d" (i (negotiate_group (csv 10 a) (csv 10 b)))
  | ["enc"; e] -> Printf.sprintf "enc=%d" (i (ver_from_encoding (nh e)))
  | ["gcs"; srv; supp; act; dis; id] ->
      let g = { g_server = (srv = "1"); g_supp = ni supp; g_active = ni act; g_disabled_global = []; g_disabled = csv 16 dis } in
      Printf.sprintf "gcs=%d" (match get_cipher_spec g (fun _ -> true) (nh id) with Some _ -> 1 | None -> 0)
  | ["ccs"; _; supp; act; dis; suites; ok] ->
      let g = { g_server = true; g_supp = ni supp; g_active = ni act; g_disabled_global = []; g_disabled = csv 16 dis } in
      let o = okf (csv 16 ok) in
      (match choose_suite g o o (csv 16 suites) with Some s -> Printf.sprintf "ccs=0:%04x" (i s.s_id) | None -> "ccs=-1:0000")
  | ["dh"; _; supp; act; ops; suites; ok] ->
      let parse_op t = (match String.split_on_char ':' t with
        | ["d"; x] -> DDis (nh x) | ["e"; x] -> DEn (nh x) | ["D"; x] -> GDis (nh x) | ["E"; x] -> GEn (nh x) | _ -> failwith "op") in
      let opl = if ops = "-" then [] else List.map parse_op (String.split_on_char ',' ops) in
      let (st, rcs) = run_ops dinit opl in
      let g = scfg_after true (ni supp) (ni act) st in
      let o = okf (csv 16 ok) and sl = csv 16 suites in
      Printf.sprintf "rc=%s slots=%s gcs=%s %s"
        (String.concat "," (List.map (function RcOk -> "0" | RcLimit -> "L" | RcNotFound -> "F") rcs))
        (String.concat "," (List.map (fun x -> Printf.sprintf "%x" (i x)) st.d_slots))
        (String.concat "," (List.map (fun x -> match get_cipher_spec g (fun _ -> true) x with Some _ -> "1" | None -> "0") sl))
        (match choose_suite g o o sl with Some s -> Printf.sprintf "ccs=0:%04x" (i s.s_id) | None -> "ccs=-1:0000")
  | ["sg"; fl; ids] ->
      let (f, c) = parse_supported_groups (nh fl) (csv 10 ids) in Printf.sprintf "sg=0:%x:%d" (i f) (i c)
  | ["psa"; sup; l] ->
      let (sh, pe) = parse_sigalgs (csv 16 sup) (csv 16 l) N0 N0 in Printf.sprintf "psa=0:%x:%x" (i sh) (i pe)
  | ["csa"; cert; ka; ks; mask] ->
      (match choose_sigalg_int (ni cert) (ni ka) (ni ks) (ni mask) with Some a -> Printf.sprintf "csa=%d" (i a) | None -> "csa=U")
  | ["ske"; t13; g13; ecf; sa; act; rsa; dsa; ct; curve; alg; ptok; sigok] ->
      let q = { q_tls13_hello = (t13 = "1"); q_groups13 = csv 10 g13; q_ecflags = nh ecf; q_sigalgs = csv 16 sa; q_active = ni act;
                q_rsa_suite = (rsa = "1"); q_dsa_suite = (dsa = "1") } in
      let k = { k_curve_type = ni ct; k_curve = ni curve; k_alg = (if alg = "-" then None else Some (nh alg)); k_point_ok = (ptok = "1"); k_sig_ok = (sigok = "1") } in
      (match client_ske q k with Ok _ -> "ok" | Err a -> Printf.sprintf "err %d" (i a))
  | ["cva"; shared; alg] ->
      (match server_cv_alg (nh shared) (nh alg) with Ok _ -> "ok" | Err a -> Printf.sprintf "err %d" (i a))
  | ["chellog"; sp; sdis; sreq; legacy; sv; suites; nullcomp; ems; ok; ecf; kcurve; groups] ->
      let s = { sv_ver = vc (csv 10 sp); sv_disabled_global = []; sv_disabled = csv 16 sdis; sv_require_ems = (sreq = "1") } in
      let h = { h_ver = { ch_legacy = ni legacy; ch_sv = (if sv = "none" then None else Some (csv 10 sv)) };
                h_suites = csv 16 suites; h_null_comp = (nullcomp = "1"); h_ems = (if ems = "-" then None else Some (ni ems)) } in
      let o = okf (csv 16 ok) in
      (match server_client_hello_g s (nh ecf) (ni kcurve) o o h (if groups = "none" then None else Some (csv 10 groups)) with
       | Ok (a, g) -> pr_acc a ^ (match g with Some c -> Printf.sprintf " g=%d" (i c) | None -> " g=-")
       | Err a -> Printf.sprintf "err %d" (i a))
  | ["dl"; supp; ok] ->
      String.concat "," (List.map (fun x -> Printf.sprintf "%04x" (i x)) (default_suite_list (ni supp) (okf (csv 16 ok))))
  | ["ksg"; ours; shares] ->
      (match key_share_group (csv 16 ours) (csv 16 shares) with Some g -> Printf.sprintf "ksg=%04x" (i g) | None -> "ksg=none")
  | ["chello"; sp; sdis; sreq; legacy; sv; suites; nullcomp; ems; ok] ->
      let s = { sv_ver = vc (csv 10 sp); sv_disabled_global = []; sv_disabled = csv 16 sdis; sv_require_ems = (sreq = "1") } in
      let h = { h_ver = { ch_legacy = ni legacy; ch_sv = (if sv = "none" then None else Some (csv 10 sv)) };
                h_suites = csv 16 suites; h_null_comp = (nullcomp = "1"); h_ems = (if ems = "-" then None else Some (ni ems)) } in
      let o = okf (csv 16 ok) in
      (match server_client_hello s o o h with Ok a -> pr_acc a | Err a -> Printf.sprintf "err %d" (i a))
  | ["shello"; cp; offered; deflist; sent; req; recver; ver; tail; hrr; suite; comp; extbytes; exts] ->
      let c = { cl_ver = vc (csv 10 cp); cl_offered = (if offered = "default" then None else Some (csv 16 offered));
                cl_disabled_global = []; cl_ems_sent = (sent = "1"); cl_ems_required = (req = "1") } in
      let h = { sh_rec_ver = ni recver; sh_ver = ni ver; sh_tail = bytes_of_hex tail; sh_hrr = (hrr = "1"); sh_suite = nh suite; sh_comp = ni comp;
                sh_ext_bytes = ni extbytes; sh_exts = (if exts = "-" then [] else List.map parse_ext (String.split_on_char ',' exts)) } in
      (match client_server_hello c (okf (csv 16 deflist)) h with
       | ShAcc a -> pr_acc a | ShErr a -> Printf.sprintf "err %d" (i a) | ShRetry -> "retry")
  | _ -> "BADCASE")
