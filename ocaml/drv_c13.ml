open M_c13
(*#include conv*)
(* case: <op> <alias> <K> <A> <B> <C> <D>   (see harness/h_pstm.c); prints the same canonical result line *)
type obj = { present : bool; init : pint }
let parse_operand (s : string) : obj =
  if s = "-" then { present = false; init = mk_pint false Z0 (nat_of_int 1) (nat_of_int 0) }
  else
    let neg = s.[0] = '-' in
    match String.split_on_char '/' (String.sub s 1 (String.length s - 1)) with
    | h :: al :: rest ->
        let u = (match rest with [] -> 0 | x :: _ -> int_of_string x) in
        { present = true; init = mk_pint neg (z_of_hex h) (nat_of_int (int_of_string al)) (nat_of_int u) }
    | _ -> failwith "operand"
let parse_alias (s : string) : int option array =
  let p = [| Some 0; Some 1; Some 2; Some 3 |] in
  if s <> "-" then
    List.iter (fun e ->
      let x = Char.code e.[0] - Char.code 'a' in
      if e.[2] = '0' then p.(x) <- None else p.(x) <- p.(Char.code e.[2] - Char.code 'a'))
      (String.split_on_char ',' s);
  p
let parse_k (s : string) : z =
  if s = "-" then Z0
  else if String.length s > 2 && s.[0] = '0' && s.[1] = 'x' then z_of_hex (String.sub s 2 (String.length s - 2))
  else z_of_int (int_of_string s)
let show_obj (name : char) (o : obj) (p : pint) : string =
  if pint_eqb p o.init then Printf.sprintf " %c==" name
  else
    Printf.sprintf " %c=%c%s/%d/%d/%d" name (if p.sign then '-' else '+') (hex_of_z (pmag p))
      (int_of_nat (alloc p)) (int_of_nat p.used) (b2i (zflag p))
let show_state (objs : obj array) (st : pint list) (r : string) : string =
  let b = Buffer.create 64 in
  Buffer.add_string b "rc=0"; Buffer.add_string b r;
  Array.iteri (fun i o ->
    let p = get st (nat_of_int i) in
    if (not o.present) && pint_eqb p o.init then () else Buffer.add_string b (show_obj "abcd".[i] o p)) objs;
  Buffer.contents b
let show_err (e : err) : string = match e with EFault -> "rc=FAULT" | _ -> Printf.sprintf "rc=%d" (int_of_z (err_code e))
let () = iter_lines (fun l ->
  match split_ws l with
  | [op; alias; k; ta; tb; tc; td] ->
      let isbytes = (op = "read_bin") in
      let objs = [| (if isbytes then parse_operand "-" else parse_operand ta); parse_operand tb; parse_operand tc; parse_operand td |] in
      let st0 = Array.to_list (Array.map (fun o -> o.init) objs) in
      let p = parse_alias alias in
      let idn i = match p.(i) with Some x -> nat_of_int x | None -> failwith "NULL operand" in
      let a () = idn 0 and b () = idn 1 and c () = idn 2 and d () = idn 3 in
      let kz = parse_k k in
      let kn () = nat_of_int (int_of_z kz) in
      let fin r = (match r with Ok st -> show_state objs st "" | Err e -> show_err e) in
      let scalar zv = show_state objs st0 (Printf.sprintf " r=%d" (int_of_z zv)) in
      (match op with
       | "add" -> fin (pstm_add (a ()) (b ()) (c ()) st0)
       | "sub" -> fin (pstm_sub (a ()) (b ()) (c ()) st0)
       | "sub_s" -> fin (pstm_sub_s (a ()) (b ()) (c ()) st0)
       | "s_add" -> fin (s_pstm_add (a ()) (b ()) (c ()) st0)
       | "add_d" -> fin (pstm_add_d (a ()) kz (c ()) st0)
       | "sub_d" -> fin (pstm_sub_d (a ()) kz (c ()) st0)
       | "mul_d" -> fin (pstm_mul_d (a ()) kz (c ()) st0)
       | "mul_2" -> fin (pstm_mul_2 (a ()) (c ()) st0)
       | "div_2" -> fin (pstm_div_2 (a ()) (c ()) st0)
       | "mul_2d" -> fin (pstm_mul_2d (a ()) kz (c ()) st0)
       | "mod_2d" -> fin (pstm_mod_2d (a ()) kz (c ()) st0)
       | "div_2d" -> fin (pstm_div_2d (a ()) kz (c ()) (match p.(3) with Some x -> Some (nat_of_int x) | None -> None) st0)
       | "lshd" -> fin (pstm_lshd (a ()) (kn ()) st0)
       | "rshd" -> fin (Ok (pstm_rshd (a ()) (kn ()) st0))
       | "2expt" -> fin (pstm_2expt (a ()) kz st0)
       | "cmp" -> scalar (pstm_cmp (a ()) (b ()) st0)
       | "cmp_mag" -> scalar (pstm_cmp_mag (a ()) (b ()) st0)
       | "cmp_d" -> scalar (pstm_cmp_d (a ()) kz st0)
       | "count_bits" -> scalar (pstm_count_bits (a ()) st0)
       | "bin_size" -> scalar (pstm_unsigned_bin_size (a ()) st0)
       | "copy" -> fin (pstm_copy (a ()) (c ()) st0)
       | "abs" -> fin (pstm_abs (a ()) (c ()) st0)
       | "clamp" -> fin (Ok (pstm_clamp (a ()) st0))
       | "zero" -> fin (Ok (pstm_zero (a ()) st0))
       | "set" -> fin (Ok (pstm_set (a ()) kz st0))
       | "mul" -> fin (pstm_mul_comba (a ()) (b ()) (c ()) st0)
       | "sqr" -> fin (pstm_sqr_comba (a ()) (c ()) st0)
       | "read_bin" -> fin (pstm_read_unsigned_bin (c ()) (List.map (fun x -> z_of_int (int_of_n x)) (bytes_of_hex ta)) st0)
       | "to_bin" ->
           (match pstm_to_unsigned_bin (a ()) st0 with
            | Err e -> show_err e
            | Ok bs ->
                let hx = if bs = [] then "-" else String.concat "" (List.map (fun x -> Printf.sprintf "%02x" (int_of_z x)) bs) in
                let tail = Buffer.create 16 in
                Array.iteri (fun i o -> if o.present then Buffer.add_string tail (show_obj "abcd".[i] o (get st0 (nat_of_int i)))) objs;
                Printf.sprintf "rc=0 n=%d out=%s guard=1%s" (List.length bs) hx (Buffer.contents tail))
       | "mont_setup" ->
           (match pstm_montgomery_setup (a ()) st0 with
            | Err e -> show_err e
            | Ok rho -> Printf.sprintf "rc=0 rho=%s" (hex_of_z rho))
       | "mont_norm" -> fin (pstm_montgomery_calc_normalization (a ()) (b ()) st0)
       | "mont_reduce" ->
           (match pstm_montgomery_setup (b ()) st0 with
            | Err e -> show_err e ^ " setup"
            | Ok rho -> fin (pstm_montgomery_reduce (a ()) (b ()) rho st0))
       | _ -> "BADOP")
  | _ -> "BADCASE")
