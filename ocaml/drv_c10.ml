open M_c10
type string = String.t     (* the extracted Coq `string` type shadows OCaml's; restore it for the glue below *)
(*#include convp*)
(*#include convn*)
(* C10 driver: runs the extracted RFC transcription (coq/Tls/TlsSpec.v) on the primary inputs dumped by
   harness/h_tlskeys.c and prints every derived value; the code-shaped models (coq/Tls/TlsModel.v) are evaluated next
   to the spec on the primitive lines and a difference is printed as MODEL<>SPEC (the theorems of Properties_C10.v say
   it never happens).
     hs12 <minor 2|3> <suite> <ems 0|1> <premaster | resumed master> <client random> <server random> <msg,msg,..> [rec ..]
     hs13 <suite> <psk|-> <resumption 0|1> <ecdhe|-> <binders_len> <msg,msg,..> [rec ..]
     prf <tls12 0|1> <sha384 0|1> <secret> <label+seed> <len>          prf()/prf2() model (= spec with that seed)
     hel <sha384 0|1> <secret> <label> <context> <len>                  psHkdfExpandLabel model
     hkx <sha384 0|1> <salt> <ikm>                                      psHkdfExtract model
     len12 <suite> <n> / len13 <n> <pad>                                protected record body length of an n-byte fragment
     skh <md5sha1|sha1|sha256|sha384|sha512> <cr> <sr> <params>         hash of the ServerKeyExchange signed content
     ks13 <suite> <psk|-> <ecdhe|-> <th CH> <th CH..SH> <th ..sFin> <th ..cFin>   the schedule on transcript-hash values
     es13 <sha384 0|1> <offered psk|-> <msg,..>                          Early Secret + Handshake Secret salt for the PSK the ServerHello selects
     labels                                                             the spec's label table: role=hex ...
     dg <hash> <msg,..>                                                 hash of the concatenated messages
     tbs13 <sha384 0|1> <server 0|1> <msg,..>                           CertificateVerify content over these messages
   record tokens of hs12:  S:<c|s>:<seq>:<type>:<content>:<explicit nonce|->   seal with that side's write keys
                           F:<c|s>:<seq>:<explicit|->                          seal that side's Finished (spec verify_data)
                           O:<c|s>:<seq>:<type>:<record>                       CBC: open
                           C:<c|s>:<seq>:<type>:<content>:<iv>:<padlen>        CBC: seal with this explicit IV / padding length
   record tokens of hs13:  S:<c|s>:<h|a>:<seq>:<type>:<content>:<pad>   F:<c|s>:<seq>:<pad>   O:<c|s>:<h|a>:<seq>:<record> *)

let un = bytes_of_hex
let hx = hex_of_bytes
let msgs_of (s : string) : n list list = if s = "-" then [] else List.map un (String.split_on_char ',' s)
let show_res (r : n list res) : string = match r with
  | Ok a -> hx a | Fault -> "CRASH" | ArgFail -> "rc=ARG" | LimitFail -> "rc=LIMIT" | OutOfFuel -> "HANG"
let check (model : string) (spec : string) = if model = spec then model else "MODEL<>SPEC " ^ model ^ " " ^ spec
let kv k v = k ^ "=" ^ hx v
let nat = nat_of_int
let ver_of_minor m = if m = 3 then TLS12 else if m = 2 then TLS11 else TLS10
let halg_flag h = match h with SHA384 -> true | SHA256 -> false

let hs12_line ver suite ems secret cr sr msgs recs =
  let v = ver_of_minor (int_of_string ver) in
  match suite_of (n_of_hex suite) with
  | None -> "UNKNOWN-SUITE"
  | Some s ->
    let tls12 = (v = TLS12) and sha3 = halg_flag s.s_prf in
    let secret = un secret and cr = un cr and sr = un sr and ml = msgs_of msgs in
    let h = tls12_handshake v s (ems = "1") secret cr sr ml in
    let k = h.h_keys in
    (* the code-shaped models on the same inputs: master secret, key block pointers, Finished *)
    let has_cke = List.exists (fun m -> int_of_n (msg_type m) = 16) ml in
    let upto_cke = let rec go l = match l with [] -> [] | m :: r -> if int_of_n (msg_type m) = 16 then [m] else m :: go r in go ml in
    let m_master = if not has_cke then hx secret
                   else show_res (if ems = "1" then derive_ext_master_model tls12 sha3 secret upto_cke else derive_master_model tls12 sha3 secret cr sr) in
    let model_kb = (match cipher_sizes (n_of_hex suite) with
      | None -> "no-cipher"
      | Some (((((mac, key), iv), _), _), _) ->
        (match gen_key_block_model tls12 sha3 mac key iv h.h_master cr sr with
         | Ok kb -> let p = key_block_ptrs false mac key iv kb in
                    let ivs = (match s.s_cipher with AES_CBC -> "" | _ -> " " ^ hx p.p_wIV ^ " " ^ hx p.p_rIV) in
                    hx p.p_wMAC ^ " " ^ hx p.p_rMAC ^ " " ^ hx p.p_wKey ^ " " ^ hx p.p_rKey ^ ivs
         | r -> show_res r)) in
    let spec_kb = hx k.k_cmac ^ " " ^ hx k.k_smac ^ " " ^ hx k.k_ckey ^ " " ^ hx k.k_skey ^
                  (match s.s_cipher with AES_CBC -> "" | _ -> " " ^ hx k.k_civ ^ " " ^ hx k.k_siv) in
    let before_fin k = let rec go l c = match l with [] -> [] | m :: r -> if int_of_n (msg_type m) = 20 then (if c = 0 then [] else m :: go r (c - 1)) else m :: go r c in go ml k in
    let m_cfin = show_res (finished_model tls12 sha3 h.h_master (before_fin (if has_cke then 0 else 1)) false) in
    let m_sfin = show_res (finished_model tls12 sha3 h.h_master (before_fin (if has_cke then 1 else 0)) true) in
    let guard = if check m_master (hx h.h_master) <> m_master || check model_kb spec_kb <> model_kb
                   || check m_cfin (hx h.h_client_finished) <> m_cfin || check m_sfin (hx h.h_server_finished) <> m_sfin
                then " MODEL<>SPEC[" ^ m_master ^ "|" ^ model_kb ^ "|" ^ m_cfin ^ "|" ^ m_sfin ^ "]" else "" in
    let verb = ver_bytes v in
    let fin_msg side = [n_of_int 20; n_of_int 0; n_of_int 0; n_of_int 12] @ (if side = "c" then h.h_client_finished else h.h_server_finished) in
    let keys side = if side = "c" then (k.k_cmac, k.k_ckey, k.k_civ) else (k.k_smac, k.k_skey, k.k_siv) in
    let seal side seq ctype content explicit =
      let (_, key, iv) = keys side in
      let seqn = n_of_int seq in
      (match s.s_cipher with
       | AES_GCM ->
         (* the model's nonce / additional data next to the spec's *)
         let mn = gcm12_nonce_model iv (un (Printf.sprintf "%016x" seq)) in
         let ma = aad12_model (un (Printf.sprintf "%016x" seq)) ctype (List.nth verb 0) (List.nth verb 1) (nat (List.length content)) in
         let sa = aad12 seqn ctype verb (nat (List.length content)) in
         if hx ma <> hx sa || (explicit = un (Printf.sprintf "%016x" seq) && hx mn <> hx (iv @ explicit)) then "MODEL<>SPEC-nonce-aad"
         else hx (seal12_gcm key iv explicit seqn ctype verb content)
       | CHACHA20_POLY1305 ->
         let mn = chacha12_nonce_model iv (un (Printf.sprintf "%016x" seq)) in
         if hx mn <> hx (nonce_xor iv seqn) then "MODEL<>SPEC-nonce" else hx (seal12_chacha key iv seqn ctype verb content)
       | AES_CBC -> "CBC-USE-OPEN") in
    let do_rec (t : string) = match String.split_on_char ':' t with
      | ["S"; side; seq; ctype; content; explicit] -> seal side (int_of_string seq) (n_of_int (int_of_string ctype)) (un content) (un explicit)
      | ["F"; side; seq; explicit] -> seal side (int_of_string seq) (n_of_int 22) (fin_msg side) (un explicit)
      | ["C"; side; seq; ctype; content; iv; padlen] ->
        (* CBC record made by the spec with an explicit IV and a padding length of the caller's choice *)
        let (mk, key, _) = keys side in
        hx (seal12_cbc s.s_mac mk key (un iv) (nat (int_of_string padlen)) (n_of_int (int_of_string seq)) (n_of_int (int_of_string ctype)) verb (un content))
      | ["O"; side; seq; ctype; record] ->
        let (mk, key, _) = keys side in
        (match open12_cbc s.s_mac mk key (n_of_int (int_of_string seq)) (n_of_int (int_of_string ctype)) verb (un record) with
         | Some c -> "ok:" ^ hx c | None -> "FAIL")
      | _ -> "BADREC" in
    String.concat " " ([kv "sh" h.h_session_hash; kv "master" h.h_master; kv "cmac" k.k_cmac; kv "smac" k.k_smac; kv "ckey" k.k_ckey;
                        kv "skey" k.k_skey; kv "civ" k.k_civ; kv "siv" k.k_siv; kv "cfin" h.h_client_finished; kv "sfin" h.h_server_finished;
                        kv "cvh" h.h_cv_content_hash]
                       @ List.mapi (fun i t -> Printf.sprintf "r%d=%s" i (do_rec t)) recs) ^ guard

let hs13_line suite psk isres ecdhe blen msgs recs =
  match suite_of (n_of_hex suite) with
  | None -> "UNKNOWN-SUITE"
  | Some s ->
    let h = s.s_prf in let sha3 = halg_flag h in
    let opt x = if x = "-" then None else Some (un x) in
    let ml = msgs_of msgs in
    let t = tls13_handshake h s.s_keylen (opt psk) (isres = "1") (opt ecdhe) (nat (int_of_string blen)) ml in
    let e = t.t_sched in
    let keys side epoch = match side, epoch with
      | "c", "h" -> (t.t_c_hs_key, t.t_c_hs_iv) | "s", "h" -> (t.t_s_hs_key, t.t_s_hs_iv)
      | "c", "e" -> (t.t_c_e_key, t.t_c_e_iv)
      | "c", _ -> (t.t_c_ap_key, t.t_c_ap_iv) | _, _ -> (t.t_s_ap_key, t.t_s_ap_iv) in
    let guard13 key iv seq outlen =
      let mn = tls13_nonce_model iv (un (Printf.sprintf "%016x" seq)) in
      hx mn = hx (nonce_xor iv (n_of_int seq)) && hx (tls13_aad_model (nat outlen)) = hx (aad13 (nat outlen)) in
    let seal side epoch seq ctype content pad =
      let (key, iv) = keys side epoch in
      let r = seal13 s.s_cipher key iv (n_of_int seq) content (n_of_int ctype) (nat pad) in
      if guard13 key iv seq (List.length r - 5) then hx r else "MODEL<>SPEC-nonce-aad" in
    let hl = (match h with SHA256 -> 32 | SHA384 -> 48) in
    let model_psk_differs = ref false in
    let fin_msg side = [n_of_int 20; n_of_int 0; n_of_int 0; n_of_int hl] @ (if side = "c" then t.t_client_finished else t.t_server_finished) in
    let do_rec (tk : string) = match String.split_on_char ':' tk with
      | ["S"; side; epoch; seq; ctype; content; pad] -> seal side epoch (int_of_string seq) (int_of_string ctype) (un content) (int_of_string pad)
      | ["F"; side; seq; pad] -> seal side "h" (int_of_string seq) 22 (fin_msg side) (int_of_string pad)
      | ["O"; side; epoch; seq; record] ->
        let (key, iv) = keys side epoch in
        (match open13 s.s_cipher key iv (n_of_int (int_of_string seq)) (un record) with
         | None -> "FAIL"
         | Some (content, ctype) ->
           let base = "ok:" ^ hx content ^ "/" ^ string_of_int (int_of_n ctype) in
           (* a NewSessionTicket under the application keys: the PSK it establishes (RFC 8446 4.6.1) *)
           if int_of_n ctype = 22 && epoch = "a" && (match content with b :: _ -> int_of_n b = 4 | [] -> false) then begin
             let nonce = nst_nonce content in
             let p = resumption_psk h e.e_res_master nonce in
             let pm = show_res (resumption_psk_model sha3 e.e_res_master nonce) in
             if pm <> hx p then model_psk_differs := true;
             base ^ "/" ^ hx p
           end else base)
      | _ -> "BADREC" in
    (* model side of the schedule: psHkdfExpandLabel for the traffic keys and Finished *)
    let mvd_s = (match verify_data_model sha3 e.e_s_hs_traffic (transcript_hash h (let rec go l = match l with [] -> [] | m :: r -> if int_of_n (msg_type m) = 20 then [] else m :: go r in go ml)) with
                 | Ok v -> hx v | r -> show_res r) in
    let guard = if mvd_s <> hx t.t_server_finished then " MODEL<>SPEC[sfin " ^ mvd_s ^ "]" else "" in
    let eo = t.t_offered in
    (* the model of tls13GenerateEarlySecret's keep-or-regenerate logic for both roles against the spec's Early Secret *)
    let m_es role = (match (if role then server_early_secret_model else client_early_secret_model) sha3 (opt psk) t.t_psk_selected with
                     | Ok st -> hx st.es_value | _ -> "rc") in
    let guard = guard ^ (if m_es false <> hx e.e_early || m_es true <> hx e.e_early then " MODEL<>SPEC[early " ^ m_es false ^ " " ^ m_es true ^ "]" else "") in
    let body = String.concat " " (["sel=" ^ (if t.t_psk_selected then "1" else "0"); "dhe=" ^ (if t.t_dhe_selected then "1" else "0"); kv "early" e.e_early; kv "early_off" eo.e_early; kv "hs_salt" t.t_hs_salt;
                        kv "binder_key" eo.e_binder_key; kv "binder" t.t_binder; kv "c_e" eo.e_c_e_traffic;
                        kv "hs" e.e_handshake; kv "c_hs" e.e_c_hs_traffic; kv "s_hs" e.e_s_hs_traffic; kv "master" e.e_master;
                        kv "c_ap" e.e_c_ap_traffic; kv "s_ap" e.e_s_ap_traffic; kv "exp" e.e_exp_master; kv "res" e.e_res_master;
                        kv "c_e_key" t.t_c_e_key; kv "c_e_iv" t.t_c_e_iv;
                        kv "c_hs_key" t.t_c_hs_key; kv "c_hs_iv" t.t_c_hs_iv; kv "s_hs_key" t.t_s_hs_key; kv "s_hs_iv" t.t_s_hs_iv;
                        kv "c_ap_key" t.t_c_ap_key; kv "c_ap_iv" t.t_c_ap_iv; kv "s_ap_key" t.t_s_ap_key; kv "s_ap_iv" t.t_s_ap_iv;
                        kv "sfin" t.t_server_finished; kv "cfin" t.t_client_finished; kv "scv" t.t_server_cv_content; kv "ccv" t.t_client_cv_content]
                       @ List.mapi (fun i tk -> Printf.sprintf "r%d=%s" i (do_rec tk)) recs) in
    body ^ guard ^ (if !model_psk_differs then " MODEL<>SPEC[resumption-psk]" else "")

let hash_by_name name m = match name with
  | "md5sha1" -> md5_spec m @ sha1_spec m | "sha1" -> sha1_spec m | "sha256" -> hash SHA256 m | "sha384" -> hash SHA384 m
  | "sha512" -> sha512_spec m | _ -> []

let () = iter_lines (fun l ->
  match split_ws l with
  | "hs12" :: ver :: suite :: ems :: secret :: cr :: sr :: msgs :: recs -> hs12_line ver suite ems secret cr sr msgs recs
  | "hs13" :: suite :: psk :: isres :: ecdhe :: blen :: msgs :: recs -> hs13_line suite psk isres ecdhe blen msgs recs
  | ["prf"; tls12; sha3; sec; seed; len] ->
    let t = (tls12 = "1") and s3 = (sha3 = "1") and n = nat (int_of_string len) in
    let m = show_res (tls_prf_model t s3 (un sec) (un seed) n) in
    if int_of_string len > 224 then m else
    check m (hx (tls_prf (if t then TLS12 else TLS11) (if s3 then SHA384 else SHA256) (un sec) [] (un seed) n))
  | ["hel"; sha3; secret; label; ctx; len] ->
    let s3 = (sha3 = "1") and n = nat (int_of_string len) in
    let m = show_res (hkdf_expand_label_model s3 (un secret) (un label) (un ctx) n) in
    if String.length m >= 3 && String.sub m 0 3 = "rc=" then m
    else check m (hx (hkdf_expand_label (if s3 then SHA384 else SHA256) (un secret) (un label) (un ctx) n))
  | ["hkx"; sha3; salt; ikm] ->
    let s3 = (sha3 = "1") in
    check (show_res (hkdf_extract_model s3 (un salt) (un ikm))) (hx (hKDF_Extract (if s3 then SHA384 else SHA256) (un salt) (un ikm)))
  | ["len12"; suite; nn] ->
    (match suite_of (n_of_hex suite) with Some s -> string_of_int (int_of_nat (body_len12 s (nat (int_of_string nn)))) | None -> "UNKNOWN-SUITE")
  | ["len13"; nn; pad] -> string_of_int (int_of_nat (body_len13 (nat (int_of_string nn)) (nat (int_of_string pad))))
  | ["skh"; name; cr; sr; params] -> hx (hash_by_name name (ske_signed_content (un cr) (un sr) (un params)))
  | ["ks13"; suite; psk; ecdhe; th_ch; th_sh; th_sfin; th_cfin] ->
    (* RFC 8446 7.1 / 7.3 on given transcript hashes (for the direct calls of the library's schedule stages) *)
    (match suite_of (n_of_hex suite) with
     | None -> "UNKNOWN-SUITE"
     | Some su ->
       let h = su.s_prf in
       let opt x = if x = "-" then None else Some (un x) in
       let e = schedule13 h (opt psk) false (opt ecdhe) (un th_ch) (un th_sh) (un th_sfin) (un th_cfin) in
       let k nm sec = kv (nm ^ "_key") (traffic_key h sec su.s_keylen) ^ " " ^ kv (nm ^ "_iv") (traffic_iv h sec) in
       String.concat " " [kv "hs" e.e_handshake; kv "c_hs" e.e_c_hs_traffic; kv "s_hs" e.e_s_hs_traffic; k "c_hs" e.e_c_hs_traffic; k "s_hs" e.e_s_hs_traffic;
                          kv "master" e.e_master; kv "c_ap" e.e_c_ap_traffic; kv "s_ap" e.e_s_ap_traffic; k "c_ap" e.e_c_ap_traffic; k "s_ap" e.e_s_ap_traffic;
                          kv "res" e.e_res_master])
  | ["es13"; sha3; psk; msgs] ->
    (* Early Secret / Handshake Secret salt for the PSK the ServerHello selects (sessions that did not complete) *)
    let h = if sha3 = "1" then SHA384 else SHA256 in
    let ml = msgs_of msgs in
    let sel = selected_psk (if psk = "-" then None else Some (un psk)) ml in
    "sel=" ^ (if psk_selected ml then "1" else "0") ^ " " ^ kv "early" (early_secret_of h sel) ^ " " ^ kv "hs_salt" (handshake_salt h sel)
  | ["labels"] -> String.concat " " (List.map (fun (r, l) -> String.concat "" (List.map (fun c -> String.make 1 (Char.chr (int_of_n c))) r) ^ "=" ^ hx l) rfc_labels)
  | ["dg"; name; msgs] -> hx (hash_by_name name (List.concat (msgs_of msgs)))
  | ["tbs13"; sha3; server; msgs] ->
    let h = if sha3 = "1" then SHA384 else SHA256 in
    let spec = cv13_content (server = "1") (transcript_hash h (msgs_of msgs)) in
    hx spec
  | _ -> "BADCASE")
