open M_c18
(*#include convp*)
(*#include convn*)
(* api <n:k:tag.tag,...> | <chunk sizes ...>     table entry: bytes needed : 0 continue / 1 respond-drop-rest : event tags ('-' = none)
   -> per receive call: "tag tag / tag / ... ; left=<undecoded bytes> st=<decoder step>" *)
let () = iter_lines (fun l ->
  match String.split_on_char '|' l with
  | [a; b] ->
      let toks = split_ws a in
      (match toks with
       | "api" :: ents ->
           let tab = List.map (fun e -> match String.split_on_char ':' e with
             | [n; k; ev] -> { t_n = nat_of_int (int_of_string n); t_k = (if k = "1" then RespondDropRest else Continue);
                               t_ev = (if ev = "-" then [] else List.map (fun x -> n_of_int (int_of_string x)) (String.split_on_char '.' ev)) }
             | _ -> failwith "entry") ents in
           let chunks = List.map int_of_string (split_ws b) in
           let st = ref (fresh O) in
           let outs = List.map (fun c ->
             let (a', ev) = recv (tdec tab) !st (List.init c (fun _ -> ())) in
             st := a'; String.concat " " (List.map (fun x -> string_of_int (int_of_n x)) ev)) chunks in
           Printf.sprintf "%s ; left=%d st=%d" (String.concat " / " outs) (List.length (!st).inbuf) (int_of_nat (!st).ast)
       | _ -> "BADCASE")
  | _ -> "BADCASE")
