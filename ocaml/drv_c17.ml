open M_c17
(*#include convp*)
(*#include convn*)
(* one case per line = the abstract event sequence of one connection (both writers), space separated:
     a<w><alg>:<iv hex|->   sslActivateWriteCipher by writer w (c|s); alg N null, G AES-GCM TLS1.2, H ChaCha20 TLS1.2,
                            T any TLS1.3 AEAD, B CBC with explicit IV (TLS >= 1.1), b CBC without
     s<w>:<record type>     one record sealed
     d<w>1 | d<w>0          the writer's psGetPrngLocked into its record buffer succeeded / failed
     p                      any other psGetPrngLocked call
     e<w>                   tls13ActivateEarlyDataReadKeys
   result: one token per sealed record  <w><key ordinal>:<seq>:<nonce | J<prng index> | STALE | NONE>
           then Qc:<seq> Qs:<seq> (final write sequence numbers) and ok=<all caller facts respected> *)
let side_of ch = if ch = 's' then Sv else Cl
let ch_of = function Sv -> 's' | Cl -> 'c'
let alg_of = function
  | 'N' -> ANull | 'G' -> AGcm12 | 'H' -> AChacha12 | 'T' -> AAead13 | 'B' -> ACbc true | 'b' -> ACbc false
  | _ -> failwith "alg"
let bytes h = if h = "-" then [] else bytes_of_hex h
let hexs b = if b = [] then "-" else hex_of_bytes b
let parse tok =
  let n = String.length tok in
  match tok.[0] with
  | 'p' -> EvDraw
  | 'e' -> EvW (side_of tok.[1], WEarlyReadReset)
  | 'd' -> EvW (side_of tok.[1], WDrawIv (tok.[2] = '1'))
  | 's' -> EvW (side_of tok.[1], WSeal (n_of_int (int_of_string (String.sub tok 3 (n - 3)))))
  | 'a' -> EvW (side_of tok.[1], WActivate (alg_of tok.[2], bytes (String.sub tok 4 (n - 4))))
  | _ -> failwith "event"
let () = iter_lines (fun l ->
  let evs = List.map parse (split_ws l) in
  let buf = Buffer.create 256 in
  let c = ref c_init and ok = ref true in
  List.iter (fun e ->
    if not (guard !c e) then ok := false;
    let (c', o) = step !c e in
    c := c';
    (match o with
     | None -> ()
     | Some (s, x) ->
        let third = (match x.s_alg with
          | ACbc _ -> (match x.s_iv with IvPrng j -> Printf.sprintf "J%d" (int_of_nat j) | IvStale -> "STALE" | IvNone -> "NONE")
          | _ -> hexs x.s_nonce) in
        Buffer.add_string buf (Printf.sprintf "%c%d:%s:%s " (ch_of s) (int_of_nat x.s_key) (hexs x.s_seq) third))) evs;
  Buffer.add_string buf (Printf.sprintf "Qc:%s Qs:%s ok=%d" (hexs (getw !c Cl).w_seq) (hexs (getw !c Sv).w_seq) (b2i !ok));
  Buffer.contents buf)
