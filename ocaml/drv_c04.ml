open M_c04
(*#include conv*)
(* C04 model driver.  Same case lines as harness/h_auth.c for the verdict sweep:
     V <ver 12|13> <role c|s> <cbmode> <cbarg> <ca 0|1> <depth> <rc> <n> (<authStatus> <authFailFlags> <selfsigned>){n}
        -> val=1 cb=<-|alert> out=<C0|C1|F<alert>>            (model of the REPAIRED code)
     P ...same...  -> the same line computed by the model of the PINNED code (used to name the defect a tree still has)
   and abstract runs of the verifying side's message machine that props/C04.py derives from live scenarios:
     M <ver 11|12|13|211|212 (DTLS)> <role c|s> <kex rsa|dhe> <cbmode> <cbarg> <fix_ske 0|1> <offered csv> <msg>...
        msg: ch:miss | ch:hit:<0|1> (first message: the run starts at the server's ClientHello) | nocert | cert:<leafkey>:<rc>:<ca>:<maxdepth>:<status>.<flags>.<self>,... | ske:<alg>:<sig> | skeu (no signature) | shd | cke | cv:<alg>:<sig> | fin:<vd>
        ideal signatures: sig = 10*signing key + (1 if the signed data is this handshake's own, else 0);
        fin vd: 1 = genuine; under RSA key transport 10*key+1 = computed by the holder of that key's private half
        -> ph=<done|dead:<alert>|wait:<n>> pops=<k> leaf=<key|->  *)
let zi = z_of_int
let callback mode arg : cbmode =
  match mode with
  | 0 -> None
  | 1 -> Some (fun a -> a)
  | 2 -> Some (fun _ -> zi 0)
  | 3 -> Some (fun _ -> zi arg)
  | 6 -> Some (fun a -> if int_of_z a = arg then zi 0 else a)
  | _ -> Some (fun a -> a)
let rec chain toks = match toks with
  | st :: fl :: ss :: rest -> { cv_status = zi (int_of_string st); cv_flags = zi (int_of_string fl); cv_self = (ss = "1") } :: chain rest
  | _ -> []
let pr (a, o) =
  Printf.sprintf "val=1 cb=%s out=%s" (match a with None -> "-" | Some x -> string_of_int (int_of_z x))
    (match o with Continue an -> Printf.sprintf "C%d" (b2i an) | Fatal x -> Printf.sprintf "F%d" (int_of_z x))
let verdict_case fx ver cbm cba ca depth rc rest =
  let v = { v_rc = zi (int_of_string rc); v_chain = chain rest; v_ca = (ca = "1"); v_maxdepth = zi (int_of_string depth) } in
  let cb = callback (int_of_string cbm) (int_of_string cba) in
  pr (if ver = "13" then cert_run13 fx v cb else cert_run12 fx v cb)
let ni s = nat_of_int (int_of_string s)
let sig_ok (k : nat) (_ : nat) (_ : sigdata) (sg : nat) = (int_of_nat sg = 10 * int_of_nat k + 1)
let fin_ok (kt : nat option) (_ : nat list) (vd : nat) =
  match kt with None -> int_of_nat vd = 1 | Some k -> int_of_nat vd = 10 * int_of_nat k + 1
let parse_msg (t : string) : msg =
  match String.split_on_char ':' t with
  | ["cert"; k; rc; ca; depth; certs] ->
      let one (c : string) = match String.split_on_char '.' c with
        | [st; fl; ss] -> { cv_status = zi (int_of_string st); cv_flags = zi (int_of_string fl); cv_self = (ss = "1") }
        | _ -> failwith ("cert " ^ c) in
      MCertificate (ni k, { v_rc = zi (int_of_string rc); v_chain = List.map one (String.split_on_char ',' certs);
                            v_ca = (ca = "1"); v_maxdepth = zi (int_of_string depth) })
  | ["ch"; "miss"] -> MClientHello None
  | ["ch"; "hit"; b] -> MClientHello (Some (b = "1"))
  | ["nocert"] -> MCertificateEmpty
  | ["ske"; alg; sg] -> MServerKeyExchange (ni "3", ni alg, ni sg)
  | ["skeu"] -> MServerKeyExchangeUnsigned (ni "3")
  | ["shd"] -> MServerHelloDone
  | ["cke"] -> MClientKeyExchange
  | ["cv"; alg; sg] -> MCertificateVerify (ni alg, ni sg)
  | ["fin"; vd] -> MFinished (ni vd)
  | _ -> failwith ("msg " ^ t)
let () = iter_lines (fun l ->
  match split_ws l with
  | "V" :: ver :: _ :: cbm :: cba :: ca :: depth :: rc :: _ :: rest -> verdict_case fixed ver cbm cba ca depth rc rest
  | "P" :: ver :: _ :: cbm :: cba :: ca :: depth :: rc :: _ :: rest -> verdict_case pinned ver cbm cba ca depth rc rest
  | "M" :: ver :: role :: kex :: cbm :: cba :: fixske :: offered :: msgs ->
      let c = { p_ver = (if ver = "13" then V13 else V12); p_dtls = (ver = "212" || ver = "211"); p_role = (if role = "s" then VServer else VClient);
                p_kex = (if kex = "rsa" then KRsa else KDhe); p_cb = callback (int_of_string cbm) (int_of_string cba);
                p_offered = List.map ni (List.filter (fun x -> x <> "" && x <> "-") (String.split_on_char ',' offered));
                p_cr = ni "1"; p_sr = ni "2"; p_fix_ske_alg = (fixske = "1") } in
      let ml = List.map parse_msg msgs in
      let s = (match ml with MClientHello _ :: _ -> run_hello sig_ok fin_ok c ml | _ -> run sig_ok fin_ok c [] ml) in
      Printf.sprintf "ph=%s pops=%d leaf=%s"
        (match s.ph with PDone -> "done" | PDead a -> Printf.sprintf "dead:%d" (int_of_z a)
                       | PHello -> "wait:9" | PWaitCert -> "wait:0" | PWaitSke -> "wait:1" | PWaitShd -> "wait:2" | PWaitCke -> "wait:3" | PWaitCv -> "wait:4" | PWaitFin -> "wait:5")
        (List.length s.pops) (match s.leaf with None -> "-" | Some k -> string_of_int (int_of_nat k))
        ^ (match s.resumed with None -> "" | Some b -> Printf.sprintf " resumed=%d" (b2i b))
  | _ -> "?")
