open M_sess
(*#include convz*)
(* dec <v13> <server> <hs> <rsec> <wsec> <err> <closed> <edskip> <edseen> <edmax> <limbo> <ignored> <ce> <se> <ccslast> <nstpending>
           <dtls> <xepoch> <pccs> <adx>                                                            (20 state fields)
       <hdr> <outer> <short> <prot> <inner> <ccsok> <alertok> <lvl> <desc> <overflow> <empty> <len> <decfail> <epoch> <replay>
       <okind> <h'> <r'> <w'> <v'> <resp> <odesc>
   enc  <20 state fields>
   gout <20 state fields> <pending> <flightdone> <resumed> <cauth>      DTLS: matrixDtlsGetOutdata *)
let bt s = (s = "1")
let zi s = z_of_int (int_of_string s)
let mkst a i = { v13 = bt a.(i); server = bt a.(i+1); hs = zi a.(i+2); rsec = bt a.(i+3); wsec = bt a.(i+4); err = bt a.(i+5);
                 closed = bt a.(i+6); ed_skip = bt a.(i+7); ed_seen = zi a.(i+8); ed_max = zi a.(i+9); limbo = bt a.(i+10);
                 ignored = zi a.(i+11); cl_early = bt a.(i+12); sv_early = bt a.(i+13); ccs_last = bt a.(i+14); nst_pending = bt a.(i+15);
                 dtls = bt a.(i+16); xepoch = zi a.(i+17); pccs = bt a.(i+18); adx = bt a.(i+19) }
let show_out o = match o with
  | Refuse -> "Refuse" | Deliver -> "Deliver" | AlertOut d -> Printf.sprintf "AlertOut:%d" (int_of_z d)
  | AlertIn (l, d) -> Printf.sprintf "AlertIn:%d:%d" (int_of_z l) (int_of_z d) | Ignored -> "Ignored"
  | Handshake r -> Printf.sprintf "Handshake:%d" (b2i r)
  | Resend -> "Resend"
let show_st s = Printf.sprintf "v=%d hs=%s R=%d W=%d E=%d C=%d eds=%d ig=%d lb=%d" (b2i s.v13) (if s.err then "-" else string_of_int (int_of_z s.hs)) (b2i s.rsec) (b2i s.wsec)
                  (b2i s.err) (b2i s.closed) (int_of_z s.ed_seen) (int_of_z s.ignored) (b2i s.limbo)
                ^ (if s.dtls then Printf.sprintf " xe=%d pc=%d ax=%d" (int_of_z s.xepoch) (b2i s.pccs) (b2i s.adx) else "")
let () = iter_lines (fun l ->
  let a = Array.of_list (split_ws l) in
  if a.(0) = "dec" then begin
    let s = mkst a 1 in
    let r = { r_hdr = (match a.(21) with "ok" -> HdrOk | "type" -> HdrBadType | "ver" -> HdrBadVer | "trunc" -> HdrTrunc | _ -> HdrBadLen);
              r_outer = zi a.(22); r_short_alert = bt a.(23);
              r_prot = (match a.(24) with "plain" -> Plain | "good" -> Good | _ -> Bad);
              r_inner = zi a.(25); r_ccs_ok = bt a.(26); r_alert_ok = bt a.(27); r_alert_level = zi a.(28); r_alert_desc = zi a.(29);
              r_overflow = bt a.(30); r_empty = bt a.(31); r_len = zi a.(32); r_decfail = bt a.(33);
              r_epoch = zi a.(34); r_replay = (match a.(35) with "dup" -> Dup | _ -> Fresh) } in
    let o = (match a.(36) with
             | "ok" -> HsOk (zi a.(37), bt a.(38), bt a.(39), bt a.(40), bt a.(41))
             | "fatal" -> HsFatal (zi a.(42))
             | "fb" -> HsFallback (zi a.(37), bt a.(38), bt a.(39), bt a.(41))
             | "rt" -> HsRetransmit
             | _ -> HsFallbackFatal (zi a.(42))) in
    let (s', out) = decode s r o in
    show_out out ^ " " ^ show_st s'
  end else if a.(0) = "enc" then Printf.sprintf "ok=%d" (b2i (encode_app_ok (mkst a 1)))
  else if a.(0) = "gout" then
    (match dtls_getout (mkst a 1) (bt a.(21)) (bt a.(22)) (bt a.(23)) (bt a.(24)) with
     | GoNone -> "none" | GoData -> "data" | GoResend -> "resend" | GoRefused -> "refused")
  else "BADCASE")
