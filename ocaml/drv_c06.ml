open M_c06
(*#include convz*)
(* One case per line:
   g13 <server> <hs>                          -> g13:<64 hex>   bit m set iff check13 accepts message type m
   g12 <server> <hs>                          -> same line format as h_hs `gate12` (64 flag subsets)
   g12d <server> <hs>                         -> same for a DTLS session: groups over 16 flag subsets x haveCookie x (lastMsn, message_seq) pairs
   stp <21 state fields> ccs | hs <typ> <body> <msn> -> <out> <post-state> lm=<lastMsn>   (one [dstep])
       state: server v13 hs rsec wsec err resumed cauth psk dhe tick status lastccs usingpsk hrr early tickkeys gotcr dtls cookie lastMsn
       body:  F | P | N0 | N1 | NC (DTLS ClientHello, empty cookie) | H12:<resumed psk dhe tick status> | H13:<hrr psk early>
              | D13:<hrr> | D12:<psk dhe>  (ClientHello that OFFERED a resumption the server does not select)
   lg S <v13> <cauth> <tickkeys> | C <v13> <tick>  then items  C | <typ>:<body>   -> complete=<b> prefix=<b> mode=...   *)
let bt s = (s = "1")
let zi s = z_of_int (int_of_string s)
let bc c = (c = '1')

let body_of s =
  if s = "F" then BFail else if s = "P" then BPlain else if s = "N0" then BFin false else if s = "N1" then BFin true
  else if s = "NC" then BHelloNoCookie
  else if String.length s >= 5 && String.sub s 0 4 = "D13:" then BHello13d (bc s.[4])
  else if String.length s >= 6 && String.sub s 0 4 = "D12:" then BHello12d (bc s.[4], bc s.[5])
  else if String.length s >= 9 && String.sub s 0 4 = "H12:" then BHello12 (bc s.[4], bc s.[5], bc s.[6], bc s.[7], bc s.[8])
  else if String.length s >= 7 && String.sub s 0 4 = "H13:" then BHello13 (bc s.[4], bc s.[5], bc s.[6])
  else BFail

let mkst a i = { server = bt a.(i); v13 = bt a.(i+1); hs = zi a.(i+2); rsec = bt a.(i+3); wsec = bt a.(i+4); err = bt a.(i+5);
                 resumed = bt a.(i+6); cauth = bt a.(i+7); psk = bt a.(i+8); dhe = bt a.(i+9); tick = zi a.(i+10); status = bt a.(i+11);
                 lastccs = bt a.(i+12); usingpsk = bt a.(i+13); hrr = bt a.(i+14); early = bt a.(i+15); tickkeys = bt a.(i+16);
                 gotcr = bt a.(i+17); dtls = bt a.(i+18); cookie = bt a.(i+19); acc = []; tr = []; snap = [] }
let show_out o = match o with
  | OFatal d -> Printf.sprintf "Fatal:%d" (int_of_z d) | OFail -> "Fail" | OAccept r -> Printf.sprintf "Accept:%d" (b2i r)
  | OWarn d -> Printf.sprintf "Warn:%d" (int_of_z d) | OIgnore -> "Ignore" | ORefuse -> "Refuse"
  | ODrop r -> Printf.sprintf "Drop:%d" (b2i r) | OHvr -> "Hvr"
let show_st s = Printf.sprintf "v=%d hs=%d R=%d W=%d E=%d x=%d%d%d%d tk=%d sr=%d lc=%d y=%d%d%d%d ck=%d"
  (b2i s.v13) (int_of_z s.hs) (b2i s.rsec) (b2i s.wsec) (b2i s.err) (b2i s.resumed) (b2i s.cauth) (b2i s.psk) (b2i s.dhe)
  (int_of_z s.tick) (b2i s.status) (b2i s.lastccs) (b2i s.usingpsk) (b2i s.hrr) (b2i s.early) (b2i s.gotcr) (b2i s.cookie)

let fabricate role hsv fb =
  let tk = (fb lsr 3) land 3 in
  { server = (role = 1); v13 = false; hs = z_of_int hsv; rsec = (fb land 1 = 1); wsec = (fb land 1 = 1); err = false;
    resumed = false; cauth = (fb land 32 <> 0); psk = (fb land 2 <> 0); dhe = (fb land 4 <> 0);
    tick = (if tk = 0 then z_of_int (-1) else if tk = 1 then h_SESS_TICKET_STATE_INIT else if tk = 2 then h_SESS_TICKET_STATE_RECVD_EXT
            else h_SESS_TICKET_STATE_SENT_TICKET);
    status = false; lastccs = false; usingpsk = false; hrr = false; early = false; tickkeys = false; gotcr = false;
    dtls = false; cookie = false; acc = []; tr = []; snap = [] }

(* DTLS sweep groups: flag subset index k (bits: 1 PSK, 2 DHE, 4 ticket RECVD_EXT (else INIT), 8 CLIENT_AUTH), haveCookie, (lastMsn, msn) *)
let dtls_pairs = [(-1, 0); (-1, 1); (0, 0); (0, 1); (0, 2); (2, 0); (2, 1); (2, 2); (2, 3); (2, 4)]
let fabricate_d role hsv k hc =
  { (fabricate role hsv 0) with psk = (k land 1 <> 0); dhe = (k land 2 <> 0);
    tick = (if k land 4 <> 0 then h_SESS_TICKET_STATE_RECVD_EXT else h_SESS_TICKET_STATE_INIT);
    cauth = (k land 8 <> 0); dtls = true; cookie = (hc = 1) }

let show_kex k = match k with KexRSA -> "rsa" | KexECDHE -> "ecdhe" | KexPSK -> "psk" | KexDHEPSK -> "dhepsk"
let show_res r = match r with ResNone -> "none" | ResYes -> "yes" | ResMaybe -> "maybe"

let () = iter_lines (fun l ->
  let a = Array.of_list (split_ws l) in
  if Array.length a = 0 then "EMPTY"
  else if a.(0) = "g13" then begin
    let sv = bt a.(1) and h = zi a.(2) in
    let buf = Bytes.make 32 '\000' in
    for m = 0 to 255 do
      if check13 sv h (z_of_int m) then
        Bytes.set buf (m lsr 3) (Char.chr (Char.code (Bytes.get buf (m lsr 3)) lor (1 lsl (m land 7))))
    done;
    "g13:" ^ String.concat "" (List.map (fun c -> Printf.sprintf "%02x" (Char.code c)) (List.of_seq (Bytes.to_seq buf)))
  end
  else if a.(0) = "g12" then begin
    let role = int_of_string a.(1) and hsv = int_of_string a.(2) in
    let all = Buffer.create 4096 in
    for fb = 0 to 63 do
      let s = fabricate role hsv fb in
      let b = Buffer.create 256 in
      let u = ref 0 and n = ref 0 and p = ref 0 and o = ref 0 in
      for t = 0 to 255 do
        match gate12 s (z_of_int t) with
        | GRej d -> if int_of_z d = 10 then incr u else begin incr o; Buffer.add_string b (Printf.sprintf "%d:r%d " t (int_of_z d)) end
        | GNoReneg -> incr n; Buffer.add_string b (Printf.sprintf "%d:n " t)
        | GIgn -> incr o; Buffer.add_string b (Printf.sprintf "%d:i " t)
        | GPass s1 -> incr p; Buffer.add_string b (Printf.sprintf "%d:p%d " t (int_of_z s1.hs))
      done;
      Buffer.add_string all (Printf.sprintf "g12:%su=%d n=%d p=%d o=%d ; " (Buffer.contents b) !u !n !p !o)
    done;
    Buffer.contents all
  end
  else if a.(0) = "g12d" then begin
    let role = int_of_string a.(1) and hsv = int_of_string a.(2) in
    let all = Buffer.create 65536 in
    for k = 0 to 15 do for hc = 0 to 1 do
      List.iter (fun (last, msn) ->
        let s = fabricate_d role hsv k hc in
        let cl = classify (z_of_int last) (z_of_int msn) in
        let b = Buffer.create 256 in
        let u = ref 0 and n = ref 0 and p = ref 0 and o = ref 0 in
        let code = Array.make 256 "" in
        for t = 0 to 255 do
          match gate12d s (z_of_int t) cl with
          | GRej d -> if int_of_z d = 10 then incr u else begin incr o; code.(t) <- Printf.sprintf "r%d" (int_of_z d) end
          | GNoReneg -> incr n; code.(t) <- "n"
          | GIgn -> incr o; code.(t) <- "f"
          | GDrop r -> incr o; code.(t) <- (if r then "x" else "f")
          | GPass s1 -> incr p; code.(t) <- Printf.sprintf "p%d" (int_of_z s1.hs)
        done;
        let t = ref 0 in
        while !t < 256 do
          if code.(!t) = "" then incr t
          else begin
            let e = ref !t in
            while !e + 1 < 256 && code.(!e + 1) = code.(!t) do incr e done;
            if !e > !t then Buffer.add_string b (Printf.sprintf "%d-%d:%s " !t !e code.(!t)) else Buffer.add_string b (Printf.sprintf "%d:%s " !t code.(!t));
            t := !e + 1
          end
        done;
        Buffer.add_string all (Printf.sprintf "g12d:%su=%d n=%d p=%d o=%d ; " (Buffer.contents b) !u !n !p !o)) dtls_pairs
    done done;
    Buffer.contents all
  end
  else if a.(0) = "stp" then begin
    let s = mkst a 1 in
    let last = zi a.(21) in
    let i = if a.(22) = "ccs" then DCcs else DHs (zi a.(23), body_of a.(24), zi a.(25)) in
    let (d', o) = dstep { d_core = s; d_last = last } i in
    show_out o ^ " " ^ show_st d'.d_core ^ Printf.sprintf " lm=%d" (int_of_z d'.d_last)
  end
  else if a.(0) = "lg" then begin
    let (c, k) = if a.(1) = "S" then (Server (bt a.(2), bt a.(3), bt a.(4)), 5) else if a.(1) = "C" then (Client (bt a.(2), zi a.(3)), 4)
                 else if a.(1) = "DS" then (DServer (bt a.(2)), 3) else (DClient (zi a.(2)), 3) in
    let items = ref [] in
    for j = Array.length a - 1 downto k do
      let t = a.(j) in
      if t = "C" then items := MCcs :: !items
      else begin
        let idx = String.index t ':' in
        items := MHs { m_typ = zi (String.sub t 0 idx); m_body = body_of (String.sub t (idx + 1) (String.length t - idx - 1)); m_cls = MExp } :: !items
      end
    done;
    let md = (match negotiated c !items with
              | None -> "none"
              | Some m -> Printf.sprintf "v13=%d,sv=%d,kex=%s,cauth=%d,res=%s,nt=%d,ocsp=%d,hrr=%d,early=%d" (b2i m.md_v13) (b2i m.md_server)
                            (show_kex m.md_kex) (b2i m.md_cauth) (show_res m.md_res) (b2i m.md_newticket) (b2i m.md_ocsp) (b2i m.md_hrr) (b2i m.md_early)
                            ^ Printf.sprintf ",declined=%d" (b2i m.md_declined)) in
    Printf.sprintf "complete=%d prefix=%d mode=%s" (b2i (completeb c !items)) (b2i (prefix_okb c !items)) md
  end
  else "BADCASE")
