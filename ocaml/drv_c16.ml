open M_c16
(*#include conv*)
(* cases (same lines as harness/h_dtlswin.c):
   w <last12hex> <bitmaphex> <exp> <e:seq12hex> ...                    window alone
   g <S|C> <last12hex> <bitmaphex> <exp> <type:hs:pccs:ade:e:seq12hex> ...   epoch gate + window
   flights <ske 0|1> <f|a|r>                                                 flight table of the model *)
let pad12 s = String.make (max 0 (12 - String.length s)) '0' ^ s
let win_str (w : win) = Printf.sprintf "last=%s bm=%s" (pad12 (hex_of_n w.w_last)) (hex_of_n w.w_bm)
let () = iter_lines (fun l ->
  match split_ws l with
  | "w" :: last :: bm :: _ :: recs ->
      let w = { w_last = n_of_hex last; w_bm = n_of_hex bm } in
      let seqs = List.map (fun t -> match String.split_on_char ':' t with
                                    | [_; s] -> n_of_hex s | _ -> failwith "rec") recs in
      let (bits, w') = run_win_bits w seqs in
      String.concat "" (List.map (fun b -> if b then "1" else "0") bits) ^ " " ^ win_str w'
  | "g" :: role :: last :: bm :: exp :: recs ->
      let st = { rx_exp = n_of_int (int_of_string exp); rx_win = { w_last = n_of_hex last; w_bm = n_of_hex bm } } in
      let rs = List.map (fun t -> match String.split_on_char ':' t with
        | [ty; hs; pccs; ade; e; s] ->
            { r_type = z_of_int (int_of_string ty); r_epoch = n_of_int (int_of_string e); r_seq = n_of_hex s;
              r_hs = z_of_int (int_of_string hs); r_pccs = (int_of_string pccs <> 0); r_ade0 = (int_of_string ade = 0);
              r_server = (role = "S") }
        | _ -> failwith "rec") recs in
      let (vs, st') = run_verdicts st rs in
      String.concat "" (List.map (fun v -> match v with
        | VAccept -> "awD" | VReplay -> "dwS" | VSkip -> "dnS" | VRetransmit -> "dnR" | VAlert -> "dnU") vs)
      ^ Printf.sprintf " exp=%d " (int_of_n st'.rx_exp) ^ win_str st'.rx_win
  | ["flights"; ske; m] ->
      (* flights <0|1> <f|a|r>: the model's flight table, "C:1 S:3 C:1 S:2,11,14 ..." *)
      let mode = (match m with "f" -> HFull | "a" -> HClientAuth | "r" -> HResumed | _ -> failwith "mode") in
      String.concat " " (List.map (fun (p, ms) ->
        (match p with Client -> "C:" | Server -> "S:") ^ String.concat "," (List.map (fun x -> string_of_int (int_of_z x)) ms))
        (flights (ske = "1") mode))
  | _ -> "BADCASE")
