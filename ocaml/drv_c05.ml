open M_c05
(*#include conv*)
(* case: nc <skip> <always_cn> <email_ci> <nameType> <expected hex> <cn hex|NULL> <id:hex,...|->  *)
let parse_san (s : string) : gname list =
  if s = "-" then [] else
  List.map (fun e -> match String.split_on_char ':' e with
    | [id; h] -> { gn_id = z_of_int (int_of_string id); gn_data = bytes_of_hex h }
    | _ -> failwith "san") (String.split_on_char ',' s)
let () = iter_lines (fun l ->
  match split_ws l with
  | [("nc" | "ncc"); sk; ac; ci; nt; e; cn; san] ->
      let o = { o_skip = (sk = "1"); o_always_cn = (ac = "1"); o_email_ci = (ci = "1"); o_type = z_of_int (int_of_string nt) } in
      let e = bytes_of_hex e in
      let cn = if cn = "NULL" then None else Some (bytes_of_hex cn) in
      let v = validate_general_name e in
      let m = name_check o (parse_san san) cn e in
      if opts_legal o then Printf.sprintf "v=%d m=%d" (b2i v) (b2i m)
      else Printf.sprintf "v=%d m=%d" (b2i v) (1000 - int_of_z c_PS_ARG_FAIL)
  | _ -> "BADCASE")
