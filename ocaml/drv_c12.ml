open M_c12
(*#include conv*)
(* C12 model driver: the same case lines as harness/h_crypto.c (see the comment there); every
   result comes from the extracted code-shaped MODEL; the extracted one-shot SPEC is evaluated on
   the same input and a difference between the two is printed as MODEL<>SPEC (the theorems of
   Properties_C12.v say this never happens - seeing it would mean extraction or driver glue is off). *)

let un = bytes_of_hex
let hx = hex_of_bytes

(* "-" = one call with everything; "a,b,c" = successive lengths (clamped), remainder as one more call *)
let split_chunks (spec : string) (m : n list) : n list list =
  let total = List.length m in
  if spec = "-" then [m] else begin
    let lens = List.map int_of_string (String.split_on_char ',' spec) in
    let rec take k l = if k = 0 then ([], l) else match l with [] -> ([], []) | x :: r -> let (a, b) = take (k - 1) r in (x :: a, b) in
    let rec go lens rest used acc = match lens with
      | [] -> if used < total then List.rev (rest :: acc) else List.rev acc
      | v :: tl -> let v = min v (total - used) in let (a, b) = take v rest in go tl b (used + v) (a :: acc) in
    go lens m 0 []
  end

let rc_of z = Printf.sprintf "rc=%d" (- (int_of_z z))
let show_res (f : 'a -> string) (r : 'a res) : string = match r with
  | Ok a -> f a
  | Fault -> "CRASH"
  | ArgFail -> rc_of c_PS_ARG_FAIL
  | LimitFail -> rc_of c_PS_LIMIT_FAIL
  | OutOfFuel -> "HANG"

let check (model : string) (spec : string) = if model = spec then model else "MODEL<>SPEC " ^ model ^ " " ^ spec

let digest alg chunks msg = match alg with
  | "sha256" -> check (hx (sha256_final (List.fold_left sha256_update sha256_init chunks))) (hx (sha256_spec msg))
  | "sha1"   -> check (hx (sha1_final (List.fold_left sha1_update sha1_init chunks))) (hx (sha1_spec msg))
  | "sha384" -> check (hx (sha384_final (List.fold_left sha384_update sha384_init chunks))) (hx (sha384_spec msg))
  | "sha512" -> check (hx (sha512_final (List.fold_left sha512_update sha512_init chunks))) (hx (sha512_spec msg))
  | "md5"    -> check (hx (md5_final (List.fold_left md5_update md5_init chunks))) (hx (md5_spec msg))
  | _ -> "BADCASE"

let hmac_stream alg key chunks = match alg with
  | "sha256" -> show_res (fun c -> hx (hmac_sha256_final (List.fold_left hmac_sha256_update c chunks))) (hmac_sha256_init key)
  | "sha1"   -> show_res (fun c -> hx (hmac_sha1_final (List.fold_left hmac_sha1_update c chunks))) (hmac_sha1_init key)
  | "sha384" -> show_res (fun c -> hx (hmac_sha384_final (List.fold_left hmac_sha384_update c chunks))) (hmac_sha384_init key)
  | "md5"    -> show_res (fun c -> hx (hmac_md5_final (List.fold_left hmac_md5_update c chunks))) (hmac_md5_init key)
  | _ -> "BADCASE"
let hmac_spec alg key msg = match alg with
  | "sha256" -> hx (hmac_sha256_spec key msg) | "sha1" -> hx (hmac_sha1_spec key msg)
  | "sha384" -> hx (hmac_sha384_spec key msg) | "md5" -> hx (hmac_md5_spec key msg) | _ -> "BADCASE"
let hmac_oneshot alg key msg =
  let f = show_res (fun (m, kl) -> hx m ^ " " ^ string_of_int (int_of_nat kl)) in
  match alg with
  | "sha256" -> f (ps_hmac_sha256 key msg) | "sha1" -> f (ps_hmac_sha1 key msg)
  | "sha384" -> f (ps_hmac_sha384 key msg) | "md5" -> f (ps_hmac_md5 key msg) | _ -> "BADCASE"

(* VERIF_C12_NOSPEC=1: skip the redundant spec evaluation (used for the large thorough-tier sweeps) *)
let nospec = (try Sys.getenv "VERIF_C12_NOSPEC" = "1" with Not_found -> false)
let check2 model spec = if nospec then model else check model (spec ())

let () = iter_lines (fun l ->
  match split_ws l with
  | ["dg"; alg; msg; spl; _al] ->
      let m = un msg in digest alg (split_chunks spl m) m
  | ["hms"; alg; key; msg; spl; _al] ->
      let m = un msg and k = un key in
      check2 (hmac_stream alg k (split_chunks spl m)) (fun () -> hmac_spec alg k m)
  | ["hmg"; alg; key; msg; spl] ->
      let m = un msg and k = un key in
      check2 (hmac_stream alg k (split_chunks spl m)) (fun () -> hmac_spec alg k m)
  | ["hm1"; alg; key; msg; _al] ->
      let m = un msg and k = un key in
      let r = hmac_oneshot alg k m in
      if nospec then r else
      (match String.split_on_char ' ' r with
       | [mac; _] when mac <> hmac_spec alg k m -> "MODEL<>SPEC " ^ r
       | _ -> r)
  | ["hkx"; alg; salt; ikm] ->
      let s = un salt and i = un ikm in
      (match alg with
       | "sha256" -> check2 (show_res hx (hkdf_extract_sha256 s i)) (fun () -> hx (hkdf_extract_sha256_spec s i))
       | "sha384" -> check2 (show_res hx (hkdf_extract_sha384 s i)) (fun () -> hx (hkdf_extract_sha384_spec s i))
       | "sha1" -> show_res hx (hkdf_extract_sha1 s i)
       | _ -> "BADCASE")
  | ["hke"; alg; prk; info; len] ->
      let p = un prk and i = un info and n = nat_of_int (int_of_string len) in
      let ok r = String.length r < 3 || String.sub r 0 3 <> "rc=" in
      (match alg with
       | "sha256" -> let r = show_res hx (hkdf_expand_sha256 p i n) in if ok r then check2 r (fun () -> hx (hkdf_expand_sha256_spec p i n)) else r
       | "sha384" -> let r = show_res hx (hkdf_expand_sha384 p i n) in if ok r then check2 r (fun () -> hx (hkdf_expand_sha384_spec p i n)) else r
       | "sha1" -> let r = show_res hx (hkdf_expand_sha1 p i n) in if ok r then check2 r (fun () -> hx (hkdf_expand_sha1_spec p i n)) else r
       | _ -> "BADCASE")
  | ["pb2"; pw; salt; iters; dklen] ->
      let p = un pw and s = un salt and it = int_of_string iters and n = nat_of_int (int_of_string dklen) in
      let r = show_res hx (pbkdf2_sha1 p s (z_of_int it) n) in
      if it >= 1 then check2 r (fun () -> hx (pbkdf2_sha1_spec p s (nat_of_int it) n)) else r
  | ["cbc"; dir; key; iv; data; spl; _al; ip] ->
      let k = un key and v = un iv and d = un data in
      if List.length v <> 16 || List.length d mod 16 <> 0 then "BADCASE"
      else if not (List.mem (List.length k) [16; 24; 32]) then rc_of c_PS_ARG_FAIL
      else begin
        let chunks = split_chunks spl d in
        if List.exists (fun c -> List.length c mod 16 <> 0) chunks then "BADCASE" else
        let inplace = (ip = "1") in
        if dir = "e" then check2 (hx (fst (aes_cbc_encrypt_calls k inplace v chunks))) (fun () -> hx (aes_cbc_encrypt_spec k v d))
        else check2 (hx (fst (aes_cbc_decrypt_calls k inplace v chunks))) (fun () -> hx (aes_cbc_decrypt_spec k v d))
      end
  | ["gcm"; mode; key; iv; aad; data; tg; spl; _al; _ip] ->
      let k = un key and v = un iv and a = un aad and d = un data in
      if List.length v <> 12 then "BADCASE"
      else if not (List.mem (List.length k) [16; 24; 32]) then rc_of c_PS_ARG_FAIL
      else begin
        let show_dec = show_res (fun o -> match o with Some p -> "ok " ^ hx p | None -> "authfail") in
        let spec_dec tag () = (match aes_gcm_decrypt_spec k v a d tag with Some p -> "ok " ^ hx p | None -> "authfail") in
        match mode with
        | "e" ->
            let tl = int_of_string tg in
            if tl < 0 || tl > 16 then "BADCASE" else
            let m = show_res (fun (ct, tag) -> hx ct ^ " " ^ hx tag) (aes_gcm_encrypt k v a (split_chunks spl d) (nat_of_int tl)) in
            check2 m (fun () -> let (ct, tag) = aes_gcm_encrypt_spec k v a d (nat_of_int tl) in hx ct ^ " " ^ hx tag)
        | "d" ->
            let tag = un tg in
            if List.length tag > 16 then "BADCASE" else
            let m = show_dec (aes_gcm_decrypt k v a d tag) in
            if tag = [] then m else check2 m (spec_dec tag)
        | "d2" ->
            let tag = un tg in
            if List.length tag > 16 then "BADCASE" else
            let chunks = split_chunks spl d in
            let rec split_last l = match l with [] -> ([], []) | [x] -> ([], x) | x :: r -> let (a, b) = split_last r in (x :: a, b) in
            let (init, last) = split_last chunks in
            check2 (show_dec (aes_gcm_decrypt2 k v a init last tag)) (spec_dec tag)
        | _ -> "BADCASE"
      end
  | ["gcmr"; key; iv1; p1; tl1; iv2; aad2; p2] ->
      let tl = int_of_string tl1 in
      if tl < 0 || tl > 16 then "BADCASE" else
      show_res (fun (ct, tag) -> hx ct ^ " " ^ hx tag) (aes_gcm_reuse (un key) (un iv1) (un p1) (nat_of_int tl) (un iv2) (un aad2) (un p2))
  | ["chp"; dir; key; nonce; aad; data; _al; _ip] ->
      (* libsodium-derived one-shot code: no code-shaped model, the extracted RFC 8439 spec is the model *)
      let k = un key and nn = un nonce and a = un aad and d = un data in
      if List.length k <> 32 || List.length nn <> 12 then "BADCASE"
      else if dir = "e" then hx (chachapoly_seal_spec k nn a d)
      else if List.length d < 16 then rc_of c_PS_ARG_FAIL
      else (match chachapoly_open_spec k nn a d with Some p -> "ok " ^ hx p | None -> "authfail")
  | ["cbc"; dir; key; iv; data; spl; _al; ip] ->
      let k = un key and v = un iv and d = un data in
      if List.length v <> 16 || List.length d mod 16 <> 0 then "BADCASE"
      else if not (List.mem (List.length k) [16; 24; 32]) then rc_of c_PS_ARG_FAIL
      else begin
        let chunks = split_chunks spl d in
        if List.exists (fun c -> List.length c mod 16 <> 0) chunks then "BADCASE" else
        let inplace = (ip = "1") in
        if dir = "e" then check2 (hx (fst (aes_cbc_encrypt_calls k inplace v chunks))) (fun () -> hx (aes_cbc_encrypt_spec k v d))
        else check2 (hx (fst (aes_cbc_decrypt_calls k inplace v chunks))) (fun () -> hx (aes_cbc_decrypt_spec k v d))
      end
  | ["gcm"; mode; key; iv; aad; data; tg; spl; _al; _ip] ->
      let k = un key and v = un iv and a = un aad and d = un data in
      if List.length v <> 12 then "BADCASE"
      else if not (List.mem (List.length k) [16; 24; 32]) then rc_of c_PS_ARG_FAIL
      else begin
        let show_dec = show_res (fun o -> match o with Some p -> "ok " ^ hx p | None -> "authfail") in
        let spec_dec tag () = (match aes_gcm_decrypt_spec k v a d tag with Some p -> "ok " ^ hx p | None -> "authfail") in
        match mode with
        | "e" ->
            let tl = int_of_string tg in
            if tl < 0 || tl > 16 then "BADCASE" else
            let m = show_res (fun (ct, tag) -> hx ct ^ " " ^ hx tag) (aes_gcm_encrypt k v a (split_chunks spl d) (nat_of_int tl)) in
            check2 m (fun () -> let (ct, tag) = aes_gcm_encrypt_spec k v a d (nat_of_int tl) in hx ct ^ " " ^ hx tag)
        | "d" ->
            let tag = un tg in
            if List.length tag > 16 then "BADCASE" else
            let m = show_dec (aes_gcm_decrypt k v a d tag) in
            if tag = [] then m else check2 m (spec_dec tag)
        | "d2" ->
            let tag = un tg in
            if List.length tag > 16 then "BADCASE" else
            let chunks = split_chunks spl d in
            let rec split_last l = match l with [] -> ([], []) | [x] -> ([], x) | x :: r -> let (a, b) = split_last r in (x :: a, b) in
            let (init, last) = split_last chunks in
            check2 (show_dec (aes_gcm_decrypt2 k v a init last tag)) (spec_dec tag)
        | _ -> "BADCASE"
      end
  | ["gcmr"; key; iv1; p1; tl1; iv2; aad2; p2] ->
      let tl = int_of_string tl1 in
      if tl < 0 || tl > 16 then "BADCASE" else
      show_res (fun (ct, tag) -> hx ct ^ " " ^ hx tag) (aes_gcm_reuse (un key) (un iv1) (un p1) (nat_of_int tl) (un iv2) (un aad2) (un p2))
  | ["chp"; dir; key; nonce; aad; data; _al; _ip] ->
      (* libsodium-derived one-shot code: no code-shaped model, the extracted RFC 8439 spec is the model *)
      let k = un key and nn = un nonce and a = un aad and d = un data in
      if List.length k <> 32 || List.length nn <> 12 then "BADCASE"
      else if dir = "e" then hx (chachapoly_seal_spec k nn a d)
      else if List.length d < 16 then rc_of c_PS_ARG_FAIL
      else (match chachapoly_open_spec k nn a d with Some p -> "ok " ^ hx p | None -> "authfail")
  | ["des3"; dir; key; iv; data; spl; _al; ip] ->
      let k = un key and v = un iv and d = un data in
      if List.length k <> 24 || List.length v <> 8 || List.length d mod 8 <> 0 then "BADCASE" else
      let chunks = split_chunks spl d in
      if List.exists (fun c -> List.length c mod 8 <> 0) chunks then "BADCASE" else
      let inplace = (ip = "1") in
      if dir = "e" then check2 (hx (fst (ps_des3_encrypt_calls k inplace v chunks))) (fun () -> hx (des3_cbc_encrypt_spec k v d))
      else check2 (hx (fst (ps_des3_decrypt_calls k inplace v chunks))) (fun () -> hx (des3_cbc_decrypt_spec k v d))
  | ["m5s1"; msg; spl; _al] ->
      let m = un msg in
      check (hx (md5sha1_final (List.fold_left md5sha1_update md5sha1_init (split_chunks spl m)))) (hx (md5sha1_spec m))
  | ["aesb"; dir; key; blk; _al; _ip] ->
      (* psAesEncryptBlock / psAesDecryptBlock are table-driven; FIPS 197 as transcribed in CryptoSym.v is spec and model *)
      let k = un key and b = un blk in
      if List.length b <> 16 then "BADCASE"
      else if not (List.mem (List.length k) [16; 24; 32]) then "rc=badkey"
      else hx (if dir = "e" then aes_encrypt_block k b else aes_decrypt_block k b)
  | ["pb1"; pw; salt] ->
      let p = un pw and s = un salt in
      if List.length s <> 8 then "BADCASE" else check (hx (pbkdf1_md5 p s)) (hx (pbkdf1_md5_spec p s))
  | ["sa2"; msg; _al] -> let m = un msg in hx (sha256_final (sha256_update sha256_init m))
  | ["s5s"; msg; _al] -> let m = un msg in hx (sha512_final (sha512_update sha512_init m))
  | ["hsg"; alg; msg; spl] ->
      (* psHashInit dispatches on the OID: SHA-256 / SHA-384 / SHA-512, anything else PS_UNSUPPORTED_FAIL *)
      let m = un msg in
      if List.mem alg ["sha256"; "sha384"; "sha512"] then digest alg (split_chunks spl m) m else rc_of c_PS_UNSUPPORTED_FAIL
  | ["hm0"; alg; key; msg] ->
      let m = un msg and k = un key in
      check2 (hmac_stream alg k [m]) (fun () -> hmac_spec alg k m)
  | ["chpd"; "e"; key; nonce; aad; data; _al; _ip] ->
      let k = un key and nn = un nonce and a = un aad and d = un data in
      if List.length k <> 32 || List.length nn <> 12 then "BADCASE" else
      let sealed = chachapoly_seal_spec k nn a d in
      let n = List.length d in
      hx (List.filteri (fun i _ -> i < n) sealed) ^ " " ^ hx (List.filteri (fun i _ -> i >= n) sealed)
  | ["chpd"; "d"; key; nonce; aad; data; tag; _al; _ip] ->
      let k = un key and nn = un nonce and a = un aad and d = un data and t = un tag in
      if List.length k <> 32 || List.length nn <> 12 || List.length t <> 16 then "BADCASE" else
      (match chachapoly_open_spec k nn a (d @ t) with Some p -> "ok " ^ hx p | None -> "authfail")
  | _ -> "BADCASE")
